----------------------------- MODULE Trace_Core -----------------------------
(***************************************************************************)
(* Trace validation for C08.  Line 1 of the log is the table shape (per    *)
(* element: symbol, name, ions, isotopes, read from the raw tables);       *)
(* every further line is one lookup performed on the real code with the    *)
(* identity (id()) and the fields of the object it returned, or the        *)
(* exception.  The specification says which key each route/input denotes   *)
(* (or that it must raise); the state remembers the first object seen for  *)
(* each key and the key of each object, so a second object for a key, or   *)
(* one object under two keys, is rejected.                                  *)
(***************************************************************************)
EXTENDS Integers, Sequences, FiniteSets, TLC, TLCExt, Json, IOUtils
Log == ndJsonDeserialize(IOEnv.TRACE_FILE)
Shape == Log[1]
VARIABLES l, seen, owner, nbad,
          inited,   \* tables whose isotopes have been created by the mass loader
          extra     \* isotopes created on demand afterwards (add_isotope), as <<table, z, a>>
vars == <<l, seen, owner, nbad, inited, extra>>

ZStr(z) == ToString(z)
HasZ(z) == ZStr(z) \in DOMAIN Shape.els
El(z) == Shape.els[ZStr(z)]
ToSet(s) == {s[i] : i \in DOMAIN s}
Syms == DOMAIN Shape.symz
Names == DOMAIN Shape.namez
Raise == [raise |-> TRUE]
Key(T, z, a, q) == [raise |-> FALSE, T |-> T, z |-> z, a |-> a, q |-> q]
KnownEl(z) == z \in ToSet(Shape.allz)
ValidIso(T, z, a) == /\ KnownEl(z)
                     /\ \/ T \in inited /\ HasZ(z) /\ a \in ToSet(El(z).isos)
                        \/ T \notin inited /\ z = 1 /\ a \in {2, 3}             \* a bare table only has D and T
                        \/ <<T, z, a>> \in extra
IsosOf(T, z) == {a \in 1..400 : ValidIso(T, z, a)}
ValidIon(z, q) == HasZ(z) /\ q \in ToSet(El(z).ions)

BySymbol(T, s) == IF s = "D" THEN Key(T, 1, 2, 0) ELSE IF s = "T" THEN Key(T, 1, 3, 0)
                  ELSE IF s \in Syms THEN Key(T, Shape.symz[s], 0, 0) ELSE Raise
ByName(T, s) == IF s = "deuterium" THEN Key(T, 1, 2, 0) ELSE IF s = "tritium" THEN Key(T, 1, 3, 0)
                ELSE IF s \in Names THEN Key(T, Shape.namez[s], 0, 0) ELSE Raise
\* which key does a lookup denote?  (the documented meaning of each route)
Expected(e) ==
  LET T == e.T  i == e.in
  IN CASE e.r = "Z"    -> IF KnownEl(i.z) THEN Key(T, i.z, 0, 0) ELSE Raise
       [] e.r = "sym"  -> BySymbol(T, i.s)
       [] e.r = "attr" -> BySymbol(T, i.s)
       [] e.r = "name" -> ByName(T, i.s)
       [] e.r = "mod"  -> IF BySymbol(T, i.s) # Raise THEN BySymbol(T, i.s) ELSE ByName(T, i.s)
       [] e.r = "iso"  -> IF i.form = "sym" THEN BySymbol(T, i.sym)
                          ELSE IF i.form = "a-sym" /\ i.sym \in Syms /\ ValidIso(T, Shape.symz[i.sym], i.a)
                               THEN Key(T, Shape.symz[i.sym], i.a, 0) ELSE Raise
       [] e.r = "elA"  -> IF ValidIso(T, i.z, i.a) THEN Key(T, i.z, i.a, 0) ELSE Raise
       [] e.r = "ion"  -> IF (i.a = 0 \/ ValidIso(T, i.z, i.a)) /\ ValidIon(i.z, i.q) THEN Key(T, i.z, i.a, i.q) ELSE Raise
       [] e.r = "ionx" -> Raise                 \* a non-integral charge (given as text) never denotes an ion
       [] e.r \in {"again", "pickle", "pickle2", "deepcopy"} -> Key(T, i.z, i.a, i.q)
       [] e.r = "chg"  -> Key(i.to, i.z, i.a, i.q)

SymOf(k) == IF k.z = 1 /\ k.a = 2 THEN "D" ELSE IF k.z = 1 /\ k.a = 3 THEN "T" ELSE Shape.symof[ZStr(k.z)]
NameOf(k) == IF k.z = 1 /\ k.a = 2 THEN "deuterium" ELSE IF k.z = 1 /\ k.a = 3 THEN "tritium" ELSE Shape.nameof[ZStr(k.z)]
ClsOf(k) == IF k.q # 0 THEN "Ion" ELSE IF k.a # 0 THEN "Isotope" ELSE "Element"
FieldsMatch(k, r) == /\ r.z = k.z /\ r.a = k.a /\ r.q = k.q /\ r.tab = k.T
                     /\ r.sym = SymOf(k) /\ r.name = NameOf(k) /\ r.cls = ClsOf(k)

\* first failing clause of a lookup event ("ok" if none)
Clause(e) ==
  LET k == Expected(e)  r == e.res
  IN IF k.raise THEN (IF "exc" \in DOMAIN r THEN "ok" ELSE "UnknownKeyMustRaise")
     ELSE IF "exc" \in DOMAIN r THEN "ValidKeyMustResolve"
     ELSE IF ~FieldsMatch(k, r) THEN "FieldsMatchKey"
     ELSE IF k \in DOMAIN seen /\ seen[k] # r.id THEN "OneObjectPerKey"
     ELSE IF r.id \in DOMAIN owner /\ owner[r.id] # k THEN "OneKeyPerObject"
     ELSE "ok"
Sorted(s) == \A i \in 1..(Len(s) - 1) : s[i] < s[i + 1]
IterClause(e) ==
  IF e.ev = "iter" THEN (IF e.res = Shape.allz THEN "ok" ELSE "IterationSortedExactlyOnce")
  ELSE IF e.ev = "iterIso"
       THEN (IF ToSet(e.res) = IsosOf(e.T, e.z) /\ Len(e.res) = Cardinality(IsosOf(e.T, e.z)) /\ e.prop = e.res /\ Sorted(e.res) THEN "ok"
             ELSE "IsotopeIterationSortedExactlyOnce")
  ELSE IF e.ev \in {"unreg", "dup"} THEN (IF "exc" \in DOMAIN e.res THEN "ok" ELSE "MustRaise")
  ELSE "ok"

Init == l = 2 /\ seen = <<>> /\ owner = <<>> /\ nbad = 0 /\ inited = {"public", "T1"} /\ extra = {}
Step ==
  /\ l <= Len(Log)
  /\ LET e == Log[l]
         c == IF e.ev = "L" THEN Clause(e) ELSE IterClause(e)
     IN /\ (c # "ok" => PrintT("@@" \o ToJson([i |-> l, clause |-> c, e |-> e])))
        /\ nbad' = nbad + (IF c = "ok" THEN 0 ELSE 1)
        /\ IF e.ev = "L" /\ c = "ok" /\ ~Expected(e).raise
           THEN /\ seen' = (Expected(e) :> e.res.id) @@ seen
                /\ owner' = (e.res.id :> Expected(e)) @@ owner
           ELSE UNCHANGED <<seen, owner>>
  /\ inited' = IF Log[l].ev = "tabinit" THEN inited \cup {Log[l].T} ELSE inited
  /\ extra' = IF Log[l].ev = "addiso" THEN extra \cup {<<Log[l].T, Log[l].z, Log[l].a>>} ELSE extra
  /\ l' = l + 1
TraceSpec == Init /\ [][Step]_vars
Done == /\ TLCGet("stats").diameter = Len(Log)
        /\ PrintT("@@" \o ToJson([summary |-> TRUE, events |-> Len(Log) - 1]))
=============================================================================
