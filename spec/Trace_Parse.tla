------------------------------ MODULE Trace_Parse ------------------------------
(***************************************************************************)
(* C01, code -> spec direction: arbitrary strings (valid derivations with  *)
(* random character edits) are given to formula(); this specification      *)
(* reads the characters of each string (PTLex) and decides, from the tokens *)
(* and the table shape, whether the string is a compound of the documented *)
(* grammar naming only defined symbols / isotopes / charges, and what it   *)
(* denotes.  In the grammar => the code must return exactly that           *)
(* composition (and density tag); outside => it must raise.  Strings on    *)
(* which the documentation is silent (a blank after a leading count) are   *)
(* only required to denote the loose reading if they are accepted.         *)
(***************************************************************************)
EXTENDS Json, IOUtils, TLCExt, Sequences, Integers, TLC, Dec, FiniteSets
Log == ndJsonDeserialize(IOEnv.TRACE_FILE)
Hdr == Log[1]
P == INSTANCE PTParse WITH SymZ <- Hdr.symz
L == INSTANCE PTLex
VARIABLE l
ToSet(s) == {s[i] : i \in DOMAIN s}
ValidAtom(z, a, q) == /\ (a = 0 \/ a \in ToSet(Hdr.isos[ToString(z)]))
                      /\ (q = 0 \/ q \in ToSet(Hdr.ions[ToString(z)]))
NoBad(toks) == \A i \in DOMAIN toks : toks[i].t # "bad"
Defined(items) == LET fl == P!FlatAtoms(items, One) IN \A i \in DOMAIN fl : ValidAtom(fl[i].z, fl[i].a, fl[i].q)
GotKeys(atoms) == {<<atoms[i].z, atoms[i].a, atoms[i].q>> : i \in DOMAIN atoms}
RECURSIVE GotTotal(_, _)
GotTotal(atoms, k) == IF atoms = <<>> THEN Zero
                      ELSE Add(IF <<Head(atoms).z, Head(atoms).a, Head(atoms).q>> = k THEN Head(atoms).c ELSE Zero, GotTotal(Tail(atoms), k))
Denotes(r, res) ==
  LET fl == P!FlatAtoms(r.items, One)
  IN /\ GotKeys(res.atoms) = P!AtomKeys(fl)
     /\ \A k \in P!AtomKeys(fl) : Close(GotTotal(res.atoms, k), P!TotalOf(fl, k), -12)
     /\ CASE r.dens.t = "none" -> TRUE
          [] r.dens.kind = "i" -> res.density.k = "num" /\ Close(res.density.v, r.dens.v, -13)
          [] r.dens.kind = "n" -> res.natural_density.k = "num" /\ Close(res.natural_density.v, r.dens.v, -11)
Clause(e) ==
  LET toks == L!Lex(e.chars)
      strict == IF NoBad(toks) THEN P!ParseTagged(toks) ELSE [ok |-> FALSE, items |-> <<>>, dens |-> [t |-> "none"]]
      loose == IF NoBad(toks) THEN P!ParseTagged(P!Loose(toks, 1)) ELSE strict
      raised == "exc" \in DOMAIN e.res
  IN IF strict.ok /\ Defined(strict.items)
     THEN (IF raised THEN "GrammarStringMustParse" ELSE IF Denotes(strict, e.res) THEN "ok" ELSE "ParsedIsDenotation")
     ELSE IF loose.ok /\ Defined(loose.items)
     THEN (IF raised \/ Denotes(loose, e.res) THEN "ok" ELSE "ParsedIsDenotation(loose)")
     ELSE IF ~raised THEN "OutsideGrammarMustBeRejected"
     ELSE IF "again" \in DOMAIN e /\ e.again = "accepted" THEN "OutsideGrammarMustBeRejectedEveryTime"
     ELSE "ok"
Init == l = 2
Next == /\ l <= Len(Log)
        /\ LET c == Clause(Log[l]) IN (c # "ok" => PrintT("@@" \o ToJson([id |-> Log[l].id, clause |-> c])))
        /\ l' = l + 1
TraceSpec == Init /\ [][Next]_l
Done == TLCGet("stats").diameter = Len(Log) /\ PrintT("@@" \o ToJson([summary |-> TRUE, events |-> Len(Log) - 1]))
=============================================================================
