---------------------------- MODULE MC_LazySim ----------------------------
(* Random long histories over ALL groups (and private tables) for C09 / C10: PTLazy with a history
   variable, run with TLC -simulate; every behaviour of length MaxLen is printed and replayed in the
   real code (cross-group effects: the fasta import, activation probing isotopes, neutron needing density). *)
EXTENDS PTLazy, Json
CONSTANT MaxLen
VARIABLE hist
SInit == Init /\ hist = <<>>
SNext == /\ Len(hist) < MaxLen
         /\ \E ev \in Events(st) : st' = Apply(st, ev) /\ hist' = Append(hist, ev)
SSpec == SInit /\ [][SNext]_<<st, hist>>
EmitHist == (Len(hist) = MaxLen) => PrintT("@@" \o ToJson([hist |-> hist]))
=============================================================================
