------------------------------ MODULE PTNeutron ------------------------------
(***************************************************************************)
(* The neutron scattering equations of the neutron_scattering              *)
(* documentation over exact decimals (properties C03, C04, C16, C17).      *)
(* All checks are in multiplied-out form: with                             *)
(*     n = sum n_k,  M = sum n_k m_k,  B = sum n_k b_k (complex),          *)
(*     S = sum n_k sigma_sk,  c = rho N_A 1e-24   (so N = n c / M)         *)
(*   rho_re  M            = 10 c Re B                                      *)
(*   rho_im  M            = 10 c |Im B|                                    *)
(*   X = max(100 n S - 4 pi |B|^2, 0)        (sigma_i = X / (100 n^2))     *)
(*   rho_inc^2 4 pi M^2   = 100 c^2 X                                      *)
(*   Sigma_coh 100 n M    = 4 pi c |B|^2                                   *)
(*   Sigma_abs M          = 2000 c lambda |Im B|                           *)
(*   Sigma_inc 100 n M    = c X                                            *)
(*   t_u (c S + 2000 c lambda |Im B|) = M                                  *)
(* Per-atom data: constant atoms contribute b_c - i sigma_a/(2000*1.798)   *)
(* and their total cross section; energy-dependent atoms contribute the    *)
(* linear interpolation of their table at lambda, clamped at both ends,    *)
(* and sigma_sk = 4 pi |b_k|^2 / 100.                                      *)
(***************************************************************************)
EXTENDS Dec, Sequences, Integers
NTOL == -10
P12 == 14
C(re, im) == [re |-> re, im |-> im]
CAdd(x, y) == C(Add(x.re, y.re), Add(x.im, y.im))
CScale(k, x) == C(MulP(k, x.re, P12), MulP(k, x.im, P12))
Abs2(x) == Add(MulP(x.re, x.re, P12), MulP(x.im, x.im, P12))
FourPi == MulInt(Pi, 4)

\* ---- interpolation with end clamping (numpy.interp on increasing wavelength nodes) ----------
\* nodes : sequence of [lam, re, im]
RECURSIVE Bracket(_, _, _)
Bracket(nodes, lam, i) == IF i >= Len(nodes) - 1 THEN i
                          ELSE IF Le(lam, nodes[i + 1].lam) THEN i ELSE Bracket(nodes, lam, i + 1)
Interp(nodes, lam) ==
  IF Le(lam, nodes[1].lam) THEN C(nodes[1].re, nodes[1].im)
  ELSE IF Ge(lam, nodes[Len(nodes)].lam) THEN C(nodes[Len(nodes)].re, nodes[Len(nodes)].im)
  ELSE LET i == Bracket(nodes, lam, 1)
           a == nodes[i]  b == nodes[i + 1]
           t == Div(Sub(lam, a.lam), Sub(b.lam, a.lam), P12)
       IN C(Add(a.re, MulP(t, Sub(b.re, a.re), P12)), Add(a.im, MulP(t, Sub(b.im, a.im), P12)))
NodesIncreasing(nodes) == \A i \in 1..(Len(nodes) - 1) : Lt(nodes[i].lam, nodes[i + 1].lam)

\* per-atom scattering length and total cross section at wavelength lam
AtomB(p, lam) == IF p.kind = "table" THEN Interp(p.nodes, lam) ELSE C(p.b_re, p.b_im)
AtomSigma(p, lam) == IF p.kind = "table" THEN DivInt(MulP(FourPi, Abs2(AtomB(p, lam)), P12), 100, P12) ELSE p.total

\* ---- sums over the parts of a compound -----------------------------------------------------
RECURSIVE SumN(_), SumM(_), SumB(_, _), SumS(_, _), SumAbsRe(_, _)
SumAbsRe(ps, lam) == IF ps = <<>> THEN Zero ELSE Add(MulP(Head(ps).n, Abs(AtomB(Head(ps), lam).re), P12), SumAbsRe(Tail(ps), lam))
SumN(ps) == IF ps = <<>> THEN Zero ELSE Add(Head(ps).n, SumN(Tail(ps)))
SumM(ps) == IF ps = <<>> THEN Zero ELSE Add(MulP(Head(ps).n, Head(ps).m, P12), SumM(Tail(ps)))
SumB(ps, lam) == IF ps = <<>> THEN C(Zero, Zero) ELSE CAdd(CScale(Head(ps).n, AtomB(Head(ps), lam)), SumB(Tail(ps), lam))
SumS(ps, lam) == IF ps = <<>> THEN Zero ELSE Add(MulP(Head(ps).n, AtomSigma(Head(ps), lam), P12), SumS(Tail(ps), lam))

\* the quantities of the header comment for a compound (ps, rho) at lam; avog = N_A
Q(ps, rho, lam, avog) ==
  LET n == SumN(ps)  M == SumM(ps)  BB == SumB(ps, lam)  S == SumS(ps, lam)
      c == MulP(MulP(rho, avog, P12), Sci(1, -24), P12)
      b2 == MulP(FourPi, Abs2(BB), P12)
      raw == Sub(MulP(MulInt(n, 100), S, P12), b2)
  IN [n |-> n, M |-> M, B |-> BB, S |-> S, c |-> c, b2 |-> b2, X |-> IF raw.s > 0 THEN raw ELSE Zero,
      sscale |-> MulP(MulInt(n, 100), S, P12), imB |-> Abs(BB.im), absRe |-> SumAbsRe(ps, lam)]

\* first equation that the seven outputs o = [re, im, inc, coh, abs, incxs, pen] violate ("ok" if none)
Equations(q, o, lam) ==
  IF ~CloseScaled(MulP(o.re, q.M, P12), MulInt(MulP(q.c, q.B.re, P12), 10), NTOL, MulInt(MulP(q.c, q.absRe, P12), 10)) THEN "SldReal"
  ELSE IF ~Close(MulP(o.im, q.M, P12), MulInt(MulP(q.c, q.imB, P12), 10), NTOL) \/ o.im.s < 0 THEN "SldImag"
  ELSE IF ~CloseScaled(MulP(MulP(Sq(o.inc), FourPi, P12), Sq(q.M), P12), MulInt(MulP(Sq(q.c), q.X, P12), 100), NTOL,
                       MulInt(MulP(Sq(q.c), q.sscale, P12), 100)) \/ o.inc.s < 0 THEN "SldIncoherent"
  ELSE IF ~CloseScaled(MulP(MulInt(o.coh, 100), MulP(q.n, q.M, P12), P12), MulP(q.c, q.b2, P12), NTOL,
                       MulP(q.c, MulP(FourPi, Add(Sq(q.absRe), Sq(q.imB)), P12), P12)) THEN "XsCoherent"
  ELSE IF ~Close(MulP(o.abs, q.M, P12), MulP(MulInt(MulP(q.c, lam, P12), 2000), q.imB, P12), NTOL) THEN "XsAbsorption"
  ELSE IF ~CloseScaled(MulP(MulInt(o.incxs, 100), MulP(q.n, q.M, P12), P12), MulP(q.c, q.X, P12), NTOL, MulP(q.c, q.sscale, P12))
          \/ o.incxs.s < 0 THEN "XsIncoherent"
  ELSE IF ~Close(MulP(o.pen, Add(MulP(q.c, q.S, P12), MulP(MulInt(MulP(q.c, lam, P12), 2000), q.imB, P12)), P12), q.M, NTOL) THEN "Penetration"
  ELSE "ok"
=============================================================================
