------------------------------- MODULE PTCore -------------------------------
(***************************************************************************)
(* Identity model of periodictable.core (property C08): tables, the        *)
(* identity-preserving caches (PeriodicTable._element, Element._isotopes,  *)
(* IonSet.ionset), the table registry used by pickle (PRIVATE_TABLES), and *)
(* change_table.                                                           *)
(*                                                                         *)
(* The heap is a set of objects [tab, z, a, q, gen]: gen is the number of  *)
(* objects with the same key that existed when it was created, so two      *)
(* objects for one key are two heap members (and OneObjectPerKey fails),   *)
(* while the state does not depend on the order of creation.  As in the    *)
(* code:                                                                   *)
(*  - `import periodictable` is the initial state: the public table is     *)
(*    built, registered and its isotopes are created by mass.init;         *)
(*  - PeriodicTable(name) creates the elements and the constructor's own   *)
(*    isotopes (D and T) only;                                             *)
(*  - mass.init(table) creates the isotopes of the mass table (through     *)
(*    add_isotope, so an isotope that exists is kept);                     *)
(*  - Element.add_isotope(a) returns the cached isotope or creates it;     *)
(*  - ions are created on first use by IonSet.__getitem__;                 *)
(*  - pickle / deepcopy restore through the registry and the same caches;  *)
(*  - change_table follows the same routes in the other table;             *)
(*  - the caller may drop its reference to a private table and keep only   *)
(*    atoms: atoms name their table, the registry keeps the table itself   *)
(*    alive, so restoring and ion / isotope creation from kept atoms go on *)
(*    working (`held` = tables the caller can still name).                 *)
(* Every lookup route is a function from the heap to an object id or       *)
(* "raise".  `act` is an observation variable (the call just made); the    *)
(* exhaustive configuration hides it with a VIEW, the simulation           *)
(* configuration prints it so the behaviour can be replayed in the code.   *)
(***************************************************************************)
EXTENDS Integers, FiniteSets, Sequences, TLC
CONSTANTS TabNames,     \* names of private tables that may be created
          Zs,           \* atomic numbers of the (small) universe
          CtorIso(_),   \* Z -> isotopes the PeriodicTable constructor creates (D, T)
          IsoOf(_),     \* Z -> isotopes the mass loader creates
          ExtraIso(_),  \* Z -> further mass numbers a caller may add with add_isotope
          IonOf(_)      \* Z -> set of valid charges (never 0)
VARIABLES heap, registry, massed, held, last, act
vars == <<heap, registry, massed, held, last, act>>

Pub == "public"
AllTabs == TabNames \cup {Pub}
AllIso == UNION {CtorIso(z) \cup IsoOf(z) \cup ExtraIso(z) : z \in Zs}
Obj(T, z, a, q) == {o \in heap : o.tab = T /\ o.z = z /\ o.a = a /\ o.q = q}
Exists(T, z, a, q) == Obj(T, z, a, q) # {}
New(T, z, a, q) == [tab |-> T, z |-> z, a |-> a, q |-> q, gen |-> Cardinality(Obj(T, z, a, q))]
Alloc(T, ks) == {New(T, k.z, k.a, 0) : k \in ks}
CtorKeys == {[z |-> z, a |-> 0] : z \in Zs} \cup {k \in [z : Zs, a : AllIso] : k.a \in CtorIso(k.z)}
MassKeys == {k \in [z : Zs, a : AllIso] : k.a \in IsoOf(k.z)}
A(op, T, z, a, q, sT) == [op |-> op, T |-> T, z |-> z, a |-> a, q |-> q, sT |-> sT]

Init == /\ heap = {[tab |-> Pub, z |-> k.z, a |-> k.a, q |-> 0, gen |-> 0] : k \in CtorKeys \cup MassKeys}
        /\ registry = {Pub} /\ massed = {Pub} /\ held = {Pub}
        /\ last = "init" /\ act = A("import", Pub, 0, 0, 0, "")

\* PeriodicTable(name): refuses a registered name; creates the elements, D and T
NewTable(T) ==
  /\ act' = A("NewTable", T, 0, 0, 0, "")
  /\ IF T \in registry
     THEN /\ UNCHANGED <<heap, registry, massed, held>> /\ last' = "raise"
     ELSE /\ heap' = heap \cup Alloc(T, CtorKeys)
          /\ registry' = registry \cup {T}
          /\ held' = held \cup {T}
          /\ UNCHANGED massed
          /\ last' = "ok"

\* mass.init(table): isotopes of the mass table, through add_isotope (existing ones are kept);
\* a second call returns at once
LoadMass(T) ==
  /\ T \in held
  /\ act' = A("LoadMass", T, 0, 0, 0, "")
  /\ LET mk == {k \in MassKeys : ~Exists(T, k.z, k.a, 0)}
     IN IF T \in massed THEN UNCHANGED <<heap, massed>> /\ last' = "ok"
        ELSE /\ heap' = heap \cup Alloc(T, mk)
             /\ massed' = massed \cup {T}
             /\ last' = "ok"
  /\ UNCHANGED <<registry, held>>

\* X.init(table, reload=True) of a data module (density, x-ray, radii, structures, form factors): data only, the
\* identity caches are not touched
ReloadData(T) ==
  /\ T \in held
  /\ act' = A("ReloadData", T, 0, 0, 0, "")
  /\ last' = "ok"
  /\ UNCHANGED <<heap, registry, massed, held>>

\* Element.add_isotope(a): the cached isotope, or a new one
AddIsotope(T, z, a) ==
  /\ T \in registry
  /\ act' = A("AddIsotope", T, z, a, 0, "")
  /\ IF Exists(T, z, a, 0) THEN UNCHANGED heap /\ last' = "found"
     ELSE /\ heap' = heap \cup {New(T, z, a, 0)} /\ last' = "created"
  /\ UNCHANGED <<registry, massed, held>>

\* element / isotope lookups never create anything
LookupBase(T, z, a) ==
  /\ T \in held
  /\ act' = A("LookupBase", T, z, a, 0, "")
  /\ UNCHANGED <<heap, registry, massed, held>>
  /\ last' = IF Exists(T, z, a, 0) THEN "found" ELSE "raise"

\* IonSet.__getitem__ on element or isotope: base must exist; cache hit, else validate, else create
GetIon(T, z, a, q) ==
  /\ T \in registry
  /\ act' = A("GetIon", T, z, a, q, "")
  /\ IF ~Exists(T, z, a, 0) THEN UNCHANGED heap /\ last' = "raise"
     ELSE IF q # 0 /\ Exists(T, z, a, q) THEN UNCHANGED heap /\ last' = "found"
     ELSE IF q \notin IonOf(z) THEN UNCHANGED heap /\ last' = "raise"      \* including q = 0
     ELSE /\ heap' = heap \cup {New(T, z, a, q)} /\ last' = "created"
  /\ UNCHANGED <<registry, massed, held>>

\* pickle.loads(pickle.dumps(o)) / deepcopy(o): __reduce__ names (table, z, a, q); _make_* resolves
\* through the registry and the caches.  (Objects are never removed, so the object is found again.)
Restore(o) ==
  /\ act' = A("Restore", o.tab, o.z, o.a, o.q, "")
  /\ IF o.tab \notin registry \/ ~Exists(o.tab, o.z, o.a, o.q)
     THEN last' = "raise" ELSE last' = "found"
  /\ UNCHANGED <<heap, registry, massed, held>>

\* change_table(atom, table2): the atom with the same Z, A, charge in table2; the base must exist there,
\* the ion is created on demand
ChangeTable(o, T2) ==
  /\ T2 \in held
  /\ act' = A("ChangeTable", T2, o.z, o.a, o.q, o.tab)
  /\ IF ~Exists(T2, o.z, o.a, 0) THEN UNCHANGED heap /\ last' = "raise"
     ELSE IF Exists(T2, o.z, o.a, o.q) THEN UNCHANGED heap /\ last' = "found"
     ELSE /\ heap' = heap \cup {New(T2, o.z, o.a, o.q)} /\ last' = "created"
  /\ UNCHANGED <<registry, massed, held>>

\* the caller forgets a private table (del table; gc) but keeps its atoms; the public table is a module global
DropTable(T) ==
  /\ T \in held /\ T # Pub
  /\ act' = A("DropTable", T, 0, 0, 0, "")
  /\ held' = held \ {T}
  /\ last' = "ok"
  /\ UNCHANGED <<heap, registry, massed>>

Charges == UNION {IonOf(z) : z \in Zs} \cup {0, 9}
Next == \/ \E T \in AllTabs : NewTable(T)
        \/ \E T \in AllTabs : LoadMass(T)
        \/ \E T \in AllTabs : DropTable(T)
        \/ \E T \in AllTabs : ReloadData(T)
        \/ \E T \in AllTabs, z \in Zs : \E a \in CtorIso(z) \cup IsoOf(z) \cup ExtraIso(z) : AddIsotope(T, z, a)
        \/ \E T \in AllTabs, z \in Zs \cup {-1, 999}, a \in AllIso \cup {0, 777} : LookupBase(T, z, a)
        \/ \E T \in AllTabs, z \in Zs, a \in AllIso \cup {0}, q \in Charges : GetIon(T, z, a, q)
        \/ \E o \in heap : Restore(o)
        \/ \E o \in heap, T2 \in AllTabs : ChangeTable(o, T2)
Spec == Init /\ [][Next]_vars
NoAct == <<heap, registry, massed, held, last>>     \* VIEW of the exhaustive configuration

\* ---- properties ------------------------------------------------------------
OneObjectPerKey == \A o1, o2 \in heap : (o1.tab = o2.tab /\ o1.z = o2.z /\ o1.a = o2.a /\ o1.q = o2.q) => o1 = o2
FieldsValid == \A o \in heap : /\ o.tab \in registry /\ o.z \in Zs
                               /\ (o.a = 0 \/ o.a \in AllIso)
                               /\ (o.q = 0 \/ o.q \in IonOf(o.z))
                               /\ (o.q # 0 => Exists(o.tab, o.z, o.a, 0))           \* an ion's base is in the same table
MassedHasIsotopes == \A T \in massed, k \in MassKeys : Exists(T, k.z, k.a, 0)
HeldIsRegistered == held \subseteq registry
RegistryIsForever == [][registry \subseteq registry']_vars
RegisteredHasElements == \A T \in registry, z \in Zs : Exists(T, z, 0, 0)
ObjectsAreForever == [][heap \subseteq heap']_vars
FailureCreatesNothing == [][last' = "raise" => heap' = heap]_vars
FoundCreatesNothing == [][last' = "found" => heap' = heap]_vars
CreatedIsOneNewObject == [][last' = "created" => Cardinality(heap' \ heap) = 1]_vars
RestoreIsIdentity == [][act'.op = "Restore" => last' = "found"]_vars
=============================================================================
