------------------------------- MODULE PTCore -------------------------------
(***************************************************************************)
(* Identity model of periodictable.core (property C08): tables, the        *)
(* identity-preserving caches (PeriodicTable._element, Element._isotopes,  *)
(* IonSet.ionset), the table registry used by pickle, and change_table.    *)
(* The heap is a set of objects [id, tab, z, a, q]; elements and isotopes  *)
(* are created when a table is built (isotopes by the mass loader, D and T *)
(* by the constructor), ions on first use.  Every lookup route is a        *)
(* function from the heap to an object id or "raise".                      *)
(***************************************************************************)
EXTENDS Integers, FiniteSets, Sequences, TLC
CONSTANTS TabNames,     \* table names that may exist, "pub" among them
          Zs,           \* atomic numbers of the (small) universe
          IsoOf(_),     \* Z -> set of mass numbers
          IonOf(_),     \* Z -> set of charges (never 0)
          MaxId
VARIABLES heap, registry, nextid, last
vars == <<heap, registry, nextid, last>>

Keys(T) == {[tab |-> T, z |-> z, a |-> 0, q |-> 0] : z \in Zs}
           \cup {[tab |-> T, z |-> z, a |-> a, q |-> 0] : z \in Zs, a \in UNION {IsoOf(y) : y \in Zs}}
Obj(T, z, a, q) == {o \in heap : o.tab = T /\ o.z = z /\ o.a = a /\ o.q = q}
Exists(T, z, a, q) == Obj(T, z, a, q) # {}
IdOf(T, z, a, q) == (CHOOSE o \in Obj(T, z, a, q) : TRUE).id
ValidBase(z, a) == z \in Zs /\ (a = 0 \/ a \in IsoOf(z))

Init == /\ heap = {} /\ registry = {} /\ nextid = 1 /\ last = "init"

\* PeriodicTable(name): refuses a registered name; creates elements and isotopes once each
NewTable(T) ==
  /\ nextid + Cardinality({k \in Keys(T) : ValidBase(k.z, k.a)}) <= MaxId
  /\ IF T \in registry
     THEN /\ UNCHANGED <<heap, registry, nextid>> /\ last' = "raise"
     ELSE LET ks == {k \in Keys(T) : ValidBase(k.z, k.a)}
              Before(x, y) == x.z < y.z \/ (x.z = y.z /\ x.a < y.a)
              num == [k \in ks |-> nextid + Cardinality({x \in ks : Before(x, k)})]
          IN /\ heap' = heap \cup {[id |-> num[k], tab |-> T, z |-> k.z, a |-> k.a, q |-> 0] : k \in ks}
             /\ registry' = registry \cup {T}
             /\ nextid' = nextid + Cardinality(ks)
             /\ last' = "ok"

\* element / isotope lookups never create anything
LookupBase(T, z, a) ==
  /\ T \in registry
  /\ UNCHANGED <<heap, registry, nextid>>
  /\ last' = IF ValidBase(z, a) /\ Exists(T, z, a, 0) THEN "found" ELSE "raise"

\* IonSet.__getitem__: cache hit, else validate, else create
GetIon(T, z, a, q) ==
  /\ T \in registry /\ ValidBase(z, a) /\ nextid < MaxId
  /\ IF Exists(T, z, a, q)
     THEN UNCHANGED <<heap, nextid>> /\ last' = "found"
     ELSE IF q \notin IonOf(z)
          THEN UNCHANGED <<heap, nextid>> /\ last' = "raise"
          ELSE /\ heap' = heap \cup {[id |-> nextid, tab |-> T, z |-> z, a |-> a, q |-> q]}
               /\ nextid' = nextid + 1 /\ last' = "created"
  /\ UNCHANGED registry

\* pickle.loads(pickle.dumps(o)) / deepcopy(o): __reduce__ names (table, z, a, q); _make_* resolves through the registry
Restore(o) ==
  /\ nextid < MaxId
  /\ IF o.tab \notin registry
     THEN UNCHANGED <<heap, nextid>> /\ last' = "raise"
     ELSE IF o.q = 0 THEN UNCHANGED <<heap, nextid>> /\ last' = "found"
     ELSE IF Exists(o.tab, o.z, o.a, o.q) THEN UNCHANGED <<heap, nextid>> /\ last' = "found"
     ELSE /\ heap' = heap \cup {[id |-> nextid, tab |-> o.tab, z |-> o.z, a |-> o.a, q |-> o.q]}
          /\ nextid' = nextid + 1 /\ last' = "created"
  /\ UNCHANGED registry

\* change_table(atom, table2): the atom with the same Z, A, charge in table2
ChangeTable(o, T2) ==
  /\ T2 \in registry /\ nextid < MaxId
  /\ IF o.q = 0 \/ Exists(T2, o.z, o.a, o.q) THEN UNCHANGED <<heap, nextid>> /\ last' = "found"
     ELSE /\ heap' = heap \cup {[id |-> nextid, tab |-> T2, z |-> o.z, a |-> o.a, q |-> o.q]}
          /\ nextid' = nextid + 1 /\ last' = "created"
  /\ UNCHANGED registry

Charges == UNION {IonOf(z) : z \in Zs} \cup {0, 9}
Next == \/ \E T \in TabNames : NewTable(T)
        \/ \E T \in TabNames, z \in Zs \cup {-1, 999}, a \in UNION {IsoOf(y) : y \in Zs} \cup {0, 777} : LookupBase(T, z, a)
        \/ \E T \in TabNames, z \in Zs, a \in UNION {IsoOf(y) : y \in Zs} \cup {0}, q \in Charges : GetIon(T, z, a, q)
        \/ \E o \in heap : Restore(o)
        \/ \E o \in heap, T2 \in TabNames : ChangeTable(o, T2)
Spec == Init /\ [][Next]_vars

\* ---- properties ------------------------------------------------------------
OneObjectPerKey == \A o1, o2 \in heap : (o1.tab = o2.tab /\ o1.z = o2.z /\ o1.a = o2.a /\ o1.q = o2.q) => o1.id = o2.id
IdsUnique == \A o1, o2 \in heap : o1.id = o2.id => o1 = o2
FieldsValid == \A o \in heap : o.tab \in registry /\ ValidBase(o.z, o.a) /\ (o.q = 0 \/ o.q \in IonOf(o.z))
ObjectsAreForever == [][heap \subseteq heap']_vars
FailureCreatesNothing == [][last' = "raise" => heap' = heap]_vars
FoundCreatesNothing == [][last' = "found" => heap' = heap]_vars
=============================================================================
