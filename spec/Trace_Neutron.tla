----------------------------- MODULE Trace_Neutron -----------------------------
(***************************************************************************)
(* Trace validation for the neutron calculators (C03, C04, C16, C17).      *)
(* Event kinds:                                                            *)
(*  scat   one call of neutron_scattering / atom.neutron.scattering with   *)
(*         the per-atom data the library served, checked against the       *)
(*         equations of PTNeutron                                          *)
(*  rel    two related calls (C04): density scaling, cell scaling,         *)
(*         regrouping / permutation, energy = wavelength, vector = scalars *)
(*  conv   unit conversions (C04)                                          *)
(*  comp   composite calculator vs direct calculation (C17)                *)
(*  d2o    contrast matching (C16)                                         *)
(***************************************************************************)
EXTENDS PTNeutron, Json, IOUtils, TLCExt, TLC
Log == ndJsonDeserialize(IOEnv.TRACE_FILE)
Hdr == Log[1]
VARIABLE l
KE == Hdr.energy_factor        \* E(meV) lambda^2 ; verified against the raw constants by the kcheck event
KV == Hdr.velocity_factor      \* v(m/s) lambda
Num(x) == x.k = "num"
Outs(o) == [re |-> o.re.v, im |-> o.im.v, inc |-> o.inc.v, coh |-> o.coh.v, abs |-> o.abs.v, incxs |-> o.incxs.v, pen |-> o.pen.v]
AllNum(o) == \A f \in {"re", "im", "inc", "coh", "abs", "incxs", "pen"} : Num(o[f])
IsNoneOut(o) == "none" \in DOMAIN o
IsVacuum(o) == \A f \in {"re", "im", "inc", "coh", "abs", "incxs"} : Num(o[f]) /\ IsZero(o[f].v)
NonNeg(o) == \A f \in {"im", "inc", "coh", "abs", "incxs", "pen"} : o[f].k = "inf" \/ (Num(o[f]) /\ o[f].v.s >= 0)
HasData(ps) == \A i \in DOMAIN ps : ps[i].kind # "nodata"
TablesOK(ps) == \A i \in DOMAIN ps : ps[i].kind = "table" => NodesIncreasing(ps[i].nodes)
LamOK(e) == IF "E" \in DOMAIN e THEN Close(Mul(Sq(e.lam), e.E), KE, -13) ELSE TRUE      \* the wavelength witness for energy=
\* an atom is served as "no data" only if the raw tables have none for it (raw is computed by the harness from the text of
\* nsf.nsftable and density.element_densities, not by the library)
RawOK(ps) == \A i \in DOMAIN ps : ("raw" \in DOMAIN ps[i] /\ ps[i].raw) => ps[i].kind # "nodata"
\* an atom with an energy-dependent table in the raw data is served with that table, on every table
RawEOK(ps) == \A i \in DOMAIN ps : ("rawE" \in DOMAIN ps[i] /\ ps[i].rawE /\ ps[i].kind # "nodata") => ps[i].kind = "table"
RECURSIVE SumMnat(_)
SumMnat(ps) == IF ps = <<>> THEN Zero ELSE Add(MulP(Head(ps).n, Head(ps).mnat, P12), SumMnat(Tail(ps)))
\* density of the call: density=, or natural_density= converted by the ratio of actual to natural-abundance mass
Rho(e) == IF "nd" \in DOMAIN e /\ ~IsZero(SumMnat(e.ps)) THEN Div(MulP(e.nd, SumM(e.ps), P12), SumMnat(e.ps), P12) ELSE e.rho
ScatClause(ps, rho, lam, o) ==
  IF ~RawOK(ps) THEN "TabulatedAtomServedAsMissing"
  ELSE IF ~RawEOK(ps) THEN "EnergyDependentAtomServedAsConstant"
  ELSE IF ~HasData(ps) THEN (IF IsNoneOut(o) THEN "ok" ELSE "MissingDataGivesNone")
  ELSE IF IsNoneOut(o) THEN "DataGivesResult"
  ELSE IF IsZero(rho) \/ IsZero(SumM(ps)) THEN (IF IsVacuum(o) /\ o.pen.k = "inf" THEN "ok" ELSE "Vacuum")
  ELSE IF ~AllNum(o) THEN "OutputsAreNumbers"
  ELSE IF ~NonNeg(o) THEN "NonNegative"
  ELSE IF ~TablesOK(ps) THEN "TableNodesIncreasing"
  ELSE Equations(Q(ps, rho, lam, Hdr.avogadro), Outs(o), lam)
\* ---- relations (C04) -----------------------------------------------------------------
Fields == {"re", "im", "inc", "coh", "abs", "incxs", "pen"}
\* The incoherent terms are differences (sigma_s - sigma_c) that may cancel almost completely, so two floating-point
\* evaluations of the same formula may differ there by far more than one ulp: they are compared on the scale of the
\* coherent term (cross section) / of the whole SLD (incoherent SLD, which is a square root of the difference).
FieldSame(a, b, f, tol) ==
  /\ a[f].k = b[f].k
  /\ Num(a[f]) =>
       IF f = "incxs" THEN CloseScaled(a.incxs.v, b.incxs.v, tol, Add(Add(Abs(a.incxs.v), Abs(a.coh.v)), Abs(b.coh.v)))
       ELSE IF f = "inc" THEN \/ Close(a.inc.v, b.inc.v, -6)
                              \/ CloseScaled(a.inc.v, b.inc.v, -8, Add(Add(Abs(a.re.v), Abs(a.im.v)), Abs(a.inc.v)))
       ELSE Close(a[f].v, b[f].v, tol)
SameOut(a, b, tol) == \A f \in Fields : FieldSame(a, b, f, tol)
ScaledOut(a, b, k) ==    \* b = outputs at k times the density of a
  LET ak == [f \in Fields |-> IF f = "pen" THEN [k |-> "num", v |-> a.pen.v] ELSE [k |-> "num", v |-> Mul(a[f].v, k)]]
      bk == [b EXCEPT !.pen = [k |-> "num", v |-> Mul(b.pen.v, k)]]
  IN SameOut(ak, bk, -11)
RelClause(e) ==
  IF IsNoneOut(e.a) \/ IsNoneOut(e.b) THEN (IF IsNoneOut(e.a) /\ IsNoneOut(e.b) THEN "ok" ELSE "RelationBothDefined")
  ELSE IF ~AllNum(e.a) \/ ~AllNum(e.b) THEN "OutputsAreNumbers"
  ELSE IF e.rel = "density" THEN (IF ~ScaledOut(e.a, e.b, e.k) THEN "DensityScaling"
                                  ELSE IF "again" \in DOMAIN e /\ ~IsNoneOut(e.again) /\ ~SameOut(e.a, e.again, -13) THEN "SameCallSameResult"
                                  ELSE "ok")
  ELSE IF e.rel \in {"cell", "regroup", "permute", "cellmul", "respell"} THEN (IF SameOut(e.a, e.b, -10) THEN "ok" ELSE "CompositionInvariance:" \o e.rel)
  ELSE IF e.rel = "energy" THEN (IF SameOut(e.a, e.b, -11) THEN "ok" ELSE "EnergyEqualsWavelength")
  ELSE IF e.rel = "vector" THEN (IF SameOut(e.a, e.b, -12) THEN "ok" ELSE "VectorIsPointwise")
  ELSE "UnknownRelation"
ConvClause(e) ==
  IF "args_kept" \in DOMAIN e /\ ~e.args_kept THEN "ConverterLeavesItsArgumentAlone"
  ELSE IF "lam_of_E_vec" \in DOMAIN e /\ (~Close(e.lam_of_E_vec, e.lam_of_E, -14) \/ ~Close(e.E_of_lam_vec, e.E_of_lam, -14)) THEN "ConverterVectorIsPointwise"
  ELSE IF "ints" \in DOMAIN e /\ (\/ \E i \in DOMAIN e.ints.lam_of_E : ~Close(e.ints.lam_of_E[i], e.lam_of_E, -14)
                                  \/ \E i \in DOMAIN e.ints.E_of_lam : ~Close(e.ints.E_of_lam[i], e.E_of_lam, -14)
                                  \/ \E i \in DOMAIN e.ints.lam_of_v : ~Close(e.ints.lam_of_v[i], e.lam_of_v, -14))
       THEN "ConverterWholeNumbersAreNumbers"
  ELSE IF ~Close(Mul(e.E, Sq(e.lam_of_E)), KE, -12) THEN "EnergyWavelengthProduct"
  ELSE IF ~Close(e.E_back, e.E, -12) THEN "EnergyRoundTrip"
  ELSE IF ~Close(Mul(e.E_of_lam, Sq(e.lam)), KE, -12) THEN "WavelengthEnergyProduct"
  ELSE IF ~Close(Mul(e.v, e.lam_of_v), KV, -12) THEN "VelocityWavelengthProduct"
  ELSE "ok"
AnchorClause(e) ==       \* 1.798 A = 2200 m/s = 25.3 meV to the documented digits
  IF Gt(Abs(Sub(e.lam_of_2200, Sci(1798, -3))), Sci(5, -4)) THEN "Anchor2200"
  ELSE IF Gt(Abs(Sub(e.E_of_1798, Sci(253, -1))), Sci(5, -2)) THEN "Anchor25.3"
  ELSE IF Gt(Abs(Sub(e.lam_of_253, Sci(1798, -3))), Sci(5, -4)) THEN "Anchor1.798"
  ELSE "ok"
KClause == LET c == Hdr.consts
               num == Mul(Mul(Sq(c.plancks_constant), c.electron_volt), Sci(1, 23))
               den == Mul(MulInt(c.neutron_mass, 2), c.atomic_mass_constant)
               numv == Mul(Mul(c.plancks_constant, c.electron_volt), Sci(1, 10))
               denv == Mul(c.neutron_mass, c.atomic_mass_constant)
           IN IF ~Close(Mul(KE, den), num, -13) THEN "EnergyFactorWitness"
              ELSE IF ~Close(Mul(KV, denv), numv, -13) THEN "VelocityFactorWitness" ELSE "ok"
\* ---- composite calculator (C17) ---------------------------------------------------------
\* parts of sum_i w_i material_i
RECURSIVE Weighted(_, _)
Weighted(mats, i) == IF i > Len(mats) THEN <<>>
                     ELSE [k \in DOMAIN mats[i].ps |-> [mats[i].ps[k] EXCEPT !.n = MulP(mats[i].w, @, 14)]] \o Weighted(mats, i + 1)
Sld3(o) == [re |-> o.re.v, im |-> o.im.v, inc |-> o.inc.v]
CompClause(e) ==
  LET ps == Weighted(e.mats, 1)
      zero == IsZero(e.rho) \/ IsZero(SumM(ps))
      three(o) == Num(o.re) /\ Num(o.im) /\ Num(o.inc)
  IN IF ~HasData(ps) THEN "ok"                         \* out of the property's scope: an atom without neutron data
     ELSE IF ~three(e.comp) THEN "CompositeOutputsAreNumbers"
     ELSE IF zero THEN (IF IsZero(e.comp.re.v) /\ IsZero(e.comp.im.v) /\ IsZero(e.comp.inc.v) THEN "ok" ELSE "CompositeZero")
     ELSE IF ~three(e.direct) THEN "DirectOutputsAreNumbers"
     ELSE LET q == Q(ps, e.rho, e.lam, Hdr.avogadro)
              chk(o, who) ==
                IF ~CloseScaled(MulP(o.re.v, q.M, 14), MulInt(MulP(q.c, q.B.re, 14), 10), NTOL, MulInt(MulP(q.c, q.absRe, 14), 10)) THEN who \o "SldReal"
                ELSE IF ~Close(MulP(o.im.v, q.M, 14), MulInt(MulP(q.c, q.imB, 14), 10), NTOL) THEN who \o "SldImag"
                ELSE IF ~CloseScaled(MulP(MulP(Sq(o.inc.v), FourPi, 14), Sq(q.M), 14), MulInt(MulP(Sq(q.c), q.X, 14), 100), NTOL,
                                     MulInt(MulP(Sq(q.c), q.sscale, 14), 100)) THEN who \o "SldIncoherent"
                ELSE "ok"
          IN IF chk(e.comp, "Composite") # "ok" THEN chk(e.comp, "Composite")
             ELSE IF chk(e.direct, "Direct") # "ok" THEN chk(e.direct, "Direct")
             ELSE IF e.shape_ok THEN "ok" ELSE "CompositeShape"
\* ---- D2O contrast (C16) -------------------------------------------------------------------
\* parts of the compound with a fraction d of its labile hydrogens (atom 1-1-0) replaced by D and the rest by natural H
RECURSIVE Substituted(_, _, _, _)
Substituted(ps, d, hpart, dpart) ==
  IF ps = <<>> THEN <<>>
  ELSE LET p == Head(ps)
       IN (IF p.atom = <<1, 1, 0>>
           THEN << [hpart EXCEPT !.n = MulP(p.n, Sub(One, d), 14)], [dpart EXCEPT !.n = MulP(p.n, d, 14)] >>
           ELSE <<p>>) \o Substituted(Tail(ps), d, hpart, dpart)
\* real and imaginary SLD o of the substituted compound at unchanged cell volume (rho scales with the mass)
SubstClause(e, d, o) ==
  LET ps2 == Substituted(e.ps, d, e.hpart, e.dpart)
      q == Q(ps2, e.rho, e.lam, Hdr.avogadro)          \* c of the ORIGINAL density ...
      M0 == SumM(e.ps)                                  \* ... and the ORIGINAL mass: N = n c / M0 is unchanged
  IN IF ~Num(o.re) \/ ~Num(o.im) THEN "D2OOutputsAreNumbers"
     ELSE IF ~CloseScaled(MulP(o.re.v, M0, 14), MulInt(MulP(q.c, q.B.re, 14), 10), NTOL, MulInt(MulP(q.c, q.absRe, 14), 10)) THEN "SoluteIsDirectSubstitution:real"
     ELSE IF ~CloseScaled(MulP(o.im.v, M0, 14), MulInt(MulP(q.c, q.imB, 14), 10), NTOL, MulInt(MulP(q.c, q.absRe, 14), 10)) THEN "SoluteIsDirectSubstitution:imag"
     ELSE "ok"
WaterClause(ps, rho, lam, o) ==
  LET q == Q(ps, rho, lam, Hdr.avogadro)
  IN IF ~Num(o.re) \/ ~Num(o.im) THEN "D2OOutputsAreNumbers"
     ELSE IF ~CloseScaled(MulP(o.re.v, q.M, 14), MulInt(MulP(q.c, q.B.re, 14), 10), NTOL, MulInt(MulP(q.c, q.absRe, 14), 10)) THEN "SolventIsWater:real"
     ELSE IF ~Close(MulP(o.im.v, q.M, 14), MulInt(MulP(q.c, q.imB, 14), 10), NTOL) THEN "SolventIsWater:imag"
     ELSE "ok"
Mix2(a, b, f) == Add(Mul(a, f), Mul(b, Sub(One, f)))
MixOK(o, a, b, f, fld) == CloseScaled(o[fld].v, Mix2(a[fld].v, b[fld].v, f), -11, Add(Abs(a[fld].v), Abs(b[fld].v)))
WaterDensityOK(e) ==      \* solvent: H2O and D2O at natural density 0.9982 (D2O scaled by the mass ratio, same cell volume)
  /\ Close(e.rhoH2O, Sci(9982, -4), -12)
  /\ Close(Mul(e.rhoD2O, SumM(e.psH2O)), Mul(Sci(9982, -4), SumM(e.psD2O)), -12)
D2OClause(e) ==
  IF "exc" \in DOMAIN e THEN "D2ORaised"
  ELSE IF "vecshape_ok" \in DOMAIN e /\ ~e.vecshape_ok THEN "OneValuePerFraction"
  ELSE IF ~WaterDensityOK(e) THEN "SolventDensity"
  ELSE IF SubstClause(e, Zero, e.o10) # "ok" THEN SubstClause(e, Zero, e.o10)
  ELSE IF SubstClause(e, One, e.o11) # "ok" THEN SubstClause(e, One, e.o11)
  ELSE IF SubstClause(e, e.d, e.o1d) # "ok" THEN SubstClause(e, e.d, e.o1d)
  ELSE IF WaterClause(e.psH2O, e.rhoH2O, e.lam, e.o00) # "ok" THEN WaterClause(e.psH2O, e.rhoH2O, e.lam, e.o00)
  ELSE IF WaterClause(e.psD2O, e.rhoD2O, e.lam, e.o01) # "ok" THEN WaterClause(e.psD2O, e.rhoD2O, e.lam, e.o01)
  ELSE IF ~MixOK(e.o0d, e.o01, e.o00, e.d, "re") \/ ~MixOK(e.o0d, e.o01, e.o00, e.d, "im") THEN "SolventMixesLinearly"
  ELSE IF ~MixOK(e.ovd, e.o1d, e.o0d, e.v, "re") \/ ~MixOK(e.ovd, e.o1d, e.o0d, e.v, "im") THEN "LinearInVolumeFraction"
  ELSE LET Hs == e.o10.re.v  Ds == e.o11.re.v  Hw == e.o00.re.v  Dw == e.o01.re.v
           den == Add(Sub(Ds, Hs), Sub(Hw, Dw))
           scale == Add(Add(Abs(Ds), Abs(Hs)), Add(Abs(Hw), Abs(Dw)))
       IN IF ~Num(e.dstar) \/ ~CloseScaled(Mul(e.dstar.v, den), Sub(Hw, Hs), -10, MulP(scale, MaxD(One, Abs(e.dstar.v)), 14)) THEN "MatchPoint"
          ELSE IF ~Num(e.msld) \/ ~CloseScaled(e.msld.v, Mix2(Ds, Hs, e.dstar.v), -10, MulP(scale, MaxD(One, Abs(e.dstar.v)), 14)) THEN "MatchPointSld"
          ELSE IF "om0" \in DOMAIN e /\
                  (~CloseScaled(e.om0.re.v, e.om1.re.v, -9, MulP(scale, MaxD(One, Abs(e.dstar.v)), 14))
                   \/ ~CloseScaled(e.omv.re.v, e.om1.re.v, -9, MulP(scale, MaxD(One, Abs(e.dstar.v)), 14))
                   \/ ~CloseScaled(e.om1.re.v, e.msld.v, -9, MulP(scale, MaxD(One, Abs(e.dstar.v)), 14))) THEN "MatchPointIndependentOfVolumeFraction"
          ELSE IF "molmatch" \in DOMAIN e /\ ~CloseScaled(e.molmatch.v, e.omv.re.v, -9, MulP(scale, MaxD(One, Abs(e.dstar.v)), 14)) THEN "MoleculeD2OsldAtMatchPoint"
          ELSE IF "mol" \notin DOMAIN e THEN "ok"
          ELSE IF ~CloseScaled(e.mol.match.v, MulInt(e.dstar.v, 100), -9, MulInt(MaxD(One, Abs(e.dstar.v)), 100)) THEN "MoleculeMatchPoint"
          ELSE IF ~CloseScaled(e.mol.sld.v, Hs, -10, scale) \/ ~CloseScaled(e.mol.Dsld.v, Ds, -10, scale) THEN "MoleculeSlds"
          ELSE IF ~CloseScaled(e.mol.D2Osld.v, e.ovd.re.v, -10, scale) THEN "MoleculeD2Osld"
          ELSE "ok"
Clause(e) ==
  CASE e.ev = "d2o" -> D2OClause(e)
    [] e.ev = "scat" -> IF ~LamOK(e) THEN "WavelengthWitness"
                        ELSE IF "argkept" \in DOMAIN e /\ ~e.argkept THEN "ArgumentFormulaUnchanged"      \* a density keyword is not written into the caller's Formula
                        ELSE ScatClause(e.ps, Rho(e), e.lam, e.out)
    [] e.ev = "rel" -> RelClause(e)
    [] e.ev = "conv" -> ConvClause(e)
    [] e.ev = "anchor" -> AnchorClause(e)
    [] e.ev = "kcheck" -> KClause
    [] e.ev = "comp" -> CompClause(e)
Init == l = 2
Next == /\ l <= Len(Log)
        /\ LET c == Clause(Log[l]) IN (c # "ok" => PrintT("@@" \o ToJson([id |-> Log[l].id, clause |-> c])))
        /\ l' = l + 1
TraceSpec == Init /\ [][Next]_l
Done == TLCGet("stats").diameter = Len(Log) /\ PrintT("@@" \o ToJson([summary |-> TRUE, events |-> Len(Log) - 1]))
=============================================================================
