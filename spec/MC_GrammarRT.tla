---------------------------- MODULE MC_GrammarRT ----------------------------
(***************************************************************************)
(* Generator and recogniser against each other, inside TLC, without the    *)
(* code: every complete derivation of PTGrammar is written out as          *)
(* characters (placeholder atoms become H, O, Fe, C, Na, Cl, Si), cut into *)
(* tokens by PTLex and read by PTParse.  The recogniser must accept it     *)
(* (strict reading) and denote exactly the generator's bag and density     *)
(* tag; every one-step malformation of MC_Grammar must be refused even by  *)
(* the loose reading.  A disagreement is a defect of the specifications,   *)
(* found before any implementation test is run.                            *)
(***************************************************************************)
EXTENDS MC_Grammar
D == INSTANCE Dec
Sym == <<"H", "O", "Fe", "C", "Na", "Cl", "Si">>
SymChars == << <<72>>, <<79>>, <<70, 101>>, <<67>>, <<78, 97>>, <<67, 108>>, <<83, 105>> >>
SymZ == [s \in {"H", "O", "Fe", "C", "Na", "Cl", "Si"} |->
           CASE s = "H" -> 1 [] s = "O" -> 8 [] s = "Fe" -> 26 [] s = "C" -> 6 [] s = "Na" -> 11 [] s = "Cl" -> 17 [] s = "Si" -> 14]
L == INSTANCE PTLex
P == INSTANCE PTParse
\* characters of every token the generator (and its malformations) can emit
CharsOf(t) ==
  CASE t = "2" -> <<50>> [] t = "3" -> <<51>> [] t = "10" -> <<49, 48>> [] t = "0.5" -> <<48, 46, 53>> [] t = "1.5" -> <<49, 46, 53>>
    [] t = ".25" -> <<46, 50, 53>> [] t = "3." -> <<51, 46>> [] t = "2.0" -> <<50, 46, 48>> [] t = "0.125" -> <<48, 46, 49, 50, 53>>
    [] t = "12" -> <<49, 50>>
    [] t = " " -> <<32>> [] t = "+" -> <<43>> [] t = " + " -> <<32, 43, 32>> [] t = "  " -> <<32, 32>>
    [] t = "(" -> <<40>> [] t = ")" -> <<41>> [] t = "]" -> <<93>> [] t = "}" -> <<125>>
    [] t = "@2" -> <<64, 50>> [] t = "@1.5n" -> <<64, 49, 46, 53, 110>> [] t = "@0.75i" -> <<64, 48, 46, 55, 53, 105>>
    [] t = "@10" -> <<64, 49, 48>> [] t = "@.5n" -> <<64, 46, 53, 110>>
    [] t = "@" -> <<64>> [] t = "@n" -> <<64, 110>> [] t = "@@1" -> <<64, 64, 49>> [] t = "@1x" -> <<64, 49, 120>>
    [] t = "@1.2.3" -> <<64, 49, 46, 50, 46, 51>> [] t = "@1 " -> <<64, 49, 32>>
    [] t = "Xx" -> <<88, 120>> [] t = "q" -> <<113>>
    [] t = "0" -> <<48>> [] t = "02" -> <<48, 50>> [] t = "1e3" -> <<49, 101, 51>> [] t = "-2" -> <<45, 50>> [] t = "1,5" -> <<49, 44, 53>>
    [] t = "$1" -> SymChars[1] [] t = "$2" -> SymChars[2] [] t = "$3" -> SymChars[3] [] t = "$4" -> SymChars[4]
    [] t = "$5" -> SymChars[5] [] t = "$6" -> SymChars[6] [] t = "$7" -> SymChars[7]
RECURSIVE Chars(_)
Chars(toks) == IF toks = <<>> THEN <<>> ELSE CharsOf(Head(toks)) \o Chars(Tail(toks))
DensOf(d) == CASE d = "@2" -> [kind |-> "i", v |-> D!FromInt(2)] [] d = "@1.5n" -> [kind |-> "n", v |-> D!Sci(15, -1)]
               [] d = "@0.75i" -> [kind |-> "i", v |-> D!Sci(75, -2)] [] d = "@10" -> [kind |-> "i", v |-> D!FromInt(10)]
               [] d = "@.5n" -> [kind |-> "n", v |-> D!Sci(5, -1)]
RECURSIVE HalfN(_, _)
HalfN(x, k) == IF k = 0 THEN x ELSE HalfN(D!Half(x), k - 1)
QDec(q) == HalfN(D!FromInt(q.n), q.e)                      \* the dyadic rational n / 2^e, exactly
Read(toks) == P!ParseTagged(L!Lex(Chars(toks)))
\* the recogniser reads every complete derivation as the generator means it
RoundTrip ==
  Complete =>
    LET r == Read(Tokens)
        fl == P!FlatAtoms(r.items, D!One)
    IN /\ r.ok
       /\ P!AtomKeys(fl) = {<<SymZ[Sym[a]], 0, 0>> : a \in {x \in 1..MaxAtoms : Bag[x].n > 0}}
       /\ \A a \in 1..MaxAtoms : Bag[a].n > 0 => D!Eq(P!TotalOf(fl, <<SymZ[Sym[a]], 0, 0>>), QDec(Bag[a]))
       /\ IF dens = "" THEN r.dens.t = "none"
          ELSE r.dens.t = "dens" /\ r.dens.kind = DensOf(dens).kind /\ D!Eq(r.dens.v, DensOf(dens).v)
\* ... and refuses every one-step malformation, in the strict and in the loose reading
NoBad(toks) == \A i \in DOMAIN toks : toks[i].t # "bad"
MalformedRefused ==
  (Complete /\ dens = "" /\ TotalEls <= 2 /\ Len(stk[1].items) = 1) =>
    \A m \in Malformed(Tokens) :
      LET lx == L!Lex(Chars(m.toks))
      IN ~NoBad(lx) \/ (~P!ParseTagged(lx).ok /\ ~P!ParseTagged(P!Loose(lx, 1)).ok)
=============================================================================
