-------------------------------- MODULE PTLex --------------------------------
(***************************************************************************)
(* Character-level lexer of the documented formula notation.  A string is  *)
(* a sequence of code points; Lex(cs) is the token sequence PTParse reads. *)
(* It makes the code -> spec direction of C01 / C13 start from the         *)
(* characters the code saw rather than from tokens cut by the harness.     *)
(*                                                                         *)
(*   nat      :: nz digit...            (nz = 1-9, digit = 0-9)             *)
(*   int      :: '0' | nat                                                 *)
(*   symbol   :: upper lower...                                            *)
(*   isotope  :: '[' nat ']'                                               *)
(*   ion      :: '{' nat? ('+' | '-') '}'                                  *)
(*   number   :: int? '.' digit...   |   nat                               *)
(*   density  :: '@' ( int? '.' digit digit... | int '.' | nat ) [ni]?     *)
(*   sep      :: blank... '+' blank...  |  blank blank...   (space, tab)   *)
(*   '('  ')'                                                              *)
(* Anything else -- including a lone '.', a '0' that is not followed by a  *)
(* '.', an '@' without a value -- is one "bad" token of one character, and *)
(* a string with a bad token is outside the grammar.  Numbers become Dec   *)
(* values digit by digit (no machine integers: a count may have any number *)
(* of digits); isotope and charge numbers with more than nine digits are   *)
(* mapped to a number no table contains.                                   *)
(***************************************************************************)
EXTENDS Integers, Sequences, Dec

Ch(cs, i) == IF i >= 1 /\ i <= Len(cs) THEN cs[i] ELSE -1
IsUpper(c) == c >= 65 /\ c <= 90
IsLower(c) == c >= 97 /\ c <= 122
IsDigit(c) == c >= 48 /\ c <= 57
IsNZ(c) == c >= 49 /\ c <= 57
IsBlank(c) == c = 32 \/ c = 9
UP == <<"A", "B", "C", "D", "E", "F", "G", "H", "I", "J", "K", "L", "M",
        "N", "O", "P", "Q", "R", "S", "T", "U", "V", "W", "X", "Y", "Z">>
LO == <<"a", "b", "c", "d", "e", "f", "g", "h", "i", "j", "k", "l", "m",
        "n", "o", "p", "q", "r", "s", "t", "u", "v", "w", "x", "y", "z">>
Letter(c) == IF IsUpper(c) THEN UP[c - 64] ELSE LO[c - 96]

In(k, c) == CASE k = "digit" -> IsDigit(c) [] k = "lower" -> IsLower(c) [] k = "blank" -> IsBlank(c)
\* first index >= i whose character is not of class k
RECURSIVE Span(_, _, _)
Span(k, cs, i) == IF i <= Len(cs) /\ In(k, cs[i]) THEN Span(k, cs, i + 1) ELSE i

RECURSIVE Word(_, _, _)
Word(cs, a, b) == IF a >= b THEN "" ELSE Letter(cs[a]) \o Word(cs, a + 1, b)      \* cs[a .. b-1] as a string

Digits(cs, a, b) == [k \in 1..(b - a) |-> cs[a + k - 1] - 48]                      \* cs[a .. b-1] as digits
Zeros(n) == [k \in 1..n |-> 0]
\* the decimal  ip . fp  (digit sequences, either may be empty)
DecOf(ip, fp) ==
  LET f == fp \o Zeros((4 - (Len(fp) % 4)) % 4)
      d == Zeros((4 - (Len(ip) % 4)) % 4) \o ip \o f
      n == Len(d) \div 4
      limbs == [j \in 1..n |-> LET b == Len(d) - 4 * j
                               IN d[b + 1] * 1000 + d[b + 2] * 100 + d[b + 3] * 10 + d[b + 4]]
  IN Norm(1, limbs, -(Len(f) \div 4))
RECURSIVE Fold10(_, _, _)
Fold10(ds, i, acc) == IF i > Len(ds) THEN acc ELSE Fold10(ds, i + 1, acc * 10 + ds[i])
NoSuchNumber == 2000000000
SmallInt(ds) == IF Len(ds) > 9 THEN NoSuchNumber ELSE Fold10(ds, 1, 0)

\* end of (0 | [1-9][0-9]*)? starting at i  (= i when it is empty)
IntEnd(cs, i) == IF Ch(cs, i) = 48 THEN i + 1 ELSE IF IsNZ(Ch(cs, i)) THEN Span("digit", cs, i + 1) ELSE i

Bad(i) == [tok |-> [t |-> "bad"], next |-> i + 1]

NumberAt(cs, i) ==
  LET j == IntEnd(cs, i)
  IN IF Ch(cs, j) = 46                                     \* int? '.' digit*
     THEN LET e == Span("digit", cs, j + 1)
          IN IF e = i + 1 THEN Bad(i)                      \* a lone '.'
             ELSE [tok |-> [t |-> "num", v |-> DecOf(Digits(cs, i, j), Digits(cs, j + 1, e))], next |-> e]
     ELSE IF IsNZ(Ch(cs, i))                               \* [1-9][0-9]*
     THEN [tok |-> [t |-> "num", v |-> DecOf(Digits(cs, i, j), <<>>)], next |-> j]
     ELSE Bad(i)

DensityAt(cs, i) ==                                        \* cs[i] = '@'
  LET k == i + 1
      j == IntEnd(cs, k)
      Kind(e) == IF Ch(cs, e) = 110 THEN [kind |-> "n", next |-> e + 1]
                 ELSE IF Ch(cs, e) = 105 THEN [kind |-> "i", next |-> e + 1]
                 ELSE [kind |-> "i", next |-> e]
      Tok(v, e) == [tok |-> [t |-> "dens", v |-> v, kind |-> Kind(e).kind], next |-> Kind(e).next]
  IN IF Ch(cs, j) = 46 /\ IsDigit(Ch(cs, j + 1))
     THEN LET e == Span("digit", cs, j + 1) IN Tok(DecOf(Digits(cs, k, j), Digits(cs, j + 1, e)), e)
     ELSE IF j > k /\ Ch(cs, j) = 46 THEN Tok(DecOf(Digits(cs, k, j), <<>>), j + 1)
     ELSE IF IsNZ(Ch(cs, k)) THEN Tok(DecOf(Digits(cs, k, j), <<>>), j)
     ELSE Bad(i)

TokenAt(cs, i) ==
  LET c == cs[i]
  IN IF IsUpper(c)
     THEN LET j == Span("lower", cs, i + 1) IN [tok |-> [t |-> "sym", s |-> Word(cs, i, j)], next |-> j]
     ELSE IF c = 91                                        \* '[' [1-9][0-9]* ']'
     THEN LET j == IF IsNZ(Ch(cs, i + 1)) THEN Span("digit", cs, i + 2) ELSE i + 1
          IN IF j > i + 1 /\ Ch(cs, j) = 93
             THEN [tok |-> [t |-> "iso", n |-> SmallInt(Digits(cs, i + 1, j))], next |-> j + 1]
             ELSE Bad(i)
     ELSE IF c = 123                                       \* '{' number? sign '}'
     THEN LET j == IF IsNZ(Ch(cs, i + 1)) THEN Span("digit", cs, i + 2) ELSE i + 1
              n == IF j = i + 1 THEN 1 ELSE SmallInt(Digits(cs, i + 1, j))
          IN IF Ch(cs, j) \in {43, 45} /\ Ch(cs, j + 1) = 125
             THEN [tok |-> [t |-> "ion", q |-> IF Ch(cs, j) = 43 THEN n ELSE -n], next |-> j + 2]
             ELSE Bad(i)
     ELSE IF IsDigit(c) \/ c = 46 THEN NumberAt(cs, i)
     ELSE IF c = 40 THEN [tok |-> [t |-> "lp"], next |-> i + 1]
     ELSE IF c = 41 THEN [tok |-> [t |-> "rp"], next |-> i + 1]
     ELSE IF IsBlank(c) \/ c = 43
     THEN LET j == Span("blank", cs, i)
          IN IF Ch(cs, j) = 43 THEN [tok |-> [t |-> "sep", plus |-> TRUE], next |-> Span("blank", cs, j + 1)]
             ELSE [tok |-> [t |-> "sep", plus |-> FALSE], next |-> j]
     ELSE IF c = 64 THEN DensityAt(cs, i)
     ELSE Bad(i)

RECURSIVE LexFrom(_, _, _)
LexFrom(cs, i, acc) == IF i > Len(cs) THEN acc
                       ELSE LET r == TokenAt(cs, i) IN LexFrom(cs, r.next, Append(acc, r.tok))
Lex(cs) == LexFrom(cs, 1, <<>>)
=============================================================================
