------------------------------ MODULE Trace_Nsf ------------------------------
(***************************************************************************)
(* C07: reference reader for the neutron scattering-length table, its      *)
(* imaginary companion and the energy-dependent tables, followed by serve  *)
(* events from the real library.                                           *)
(*  NsfRow   Z-Sym[-A], conc | half-life, spin, b_c, b+, b-, flag, coh,    *)
(*           inc, total, abs    ('<' limits and '*' estimates read as the  *)
(*           bare number, (unc) dropped, blank = missing)                  *)
(*  NsfIRow  Z-Sym[-A], b_c_i, b+_i, b-_i                                  *)
(*  Serve    an element or isotope with what its .neutron reports          *)
(*  ENode    one node of an energy-dependent table, with the wavelength    *)
(*           the library computed for it and the complex length it returns *)
(***************************************************************************)
EXTENDS PTReaders, Json, IOUtils, TLCExt, TLC, FiniteSets
Log == ndJsonDeserialize(IOEnv.TRACE_FILE)
Hdr == Log[1]
VARIABLES l, rows, imag, firstiso
vars == <<l, rows, imag, firstiso>>
Init == l = 2 /\ rows = <<>> /\ imag = <<>> /\ firstiso = <<>>

Fix(n) == UncValue(n)                    \* FixNumber: the harness has stripped '<' and '*'; (unc) is dropped here
\* served tagged number equals an expected Dec-or-missing value
NumIs(sv, x) == IF IsNone(x) THEN sv.k = "none" ELSE sv.k = "num" /\ Close(sv.v, x, -13)
\* the record an atom must report, or NoVal when it is not in the table
RowOf(z, a) == IF <<z, a>> \in DOMAIN rows THEN rows[<<z, a>>]
               ELSE IF a = 0 /\ z \in DOMAIN firstiso THEN rows[<<z, firstiso[z]>>]      \* element without its own row
               ELSE NoVal
KeyOf(z, a) == IF <<z, a>> \in DOMAIN rows THEN <<z, a>> ELSE <<z, firstiso[z]>>
FourPi100 == DivInt(MulInt(Pi, 4), 100, 14)
Total(r, z, a) ==                        \* documented gap fill: Xe total = coherent + incoherent
  IF z = 54 /\ a = 0 /\ IsNone(Fix(r.total)) THEN Add(Fix(r.coh), Fix(r.inc)) ELSE Fix(r.total)
BcOK(sv, r, z, a) ==                     \* documented gap fill: Eu-151 b_c = sqrt(coherent / (4 pi / 100))
  IF z = 63 /\ a = 151 /\ IsNone(Fix(r.b_c))
  THEN sv.k = "num" /\ sv.v.s >= 0 /\ Close(MulP(Sq(sv.v), FourPi100, 14), Fix(r.coh), -12)
  ELSE NumIs(sv, Fix(r.b_c))
Abund(r, a) == IF a = 0 THEN Zero                               \* element records carry no isotope concentration
               ELSE IF r.halflife THEN Zero ELSE (IF IsNone(Fix(r.p)) THEN NoVal ELSE Fix(r.p))
ServeClause(e) ==
  LET r == RowOf(e.z, e.a)
  IN IF "exc" \in DOMAIN e THEN "ServeRaised"
     ELSE IF IsNone(r) THEN (IF e.has_sld THEN "AbsentAtomHasNoSld" ELSE "ok")
     ELSE LET k == KeyOf(e.z, e.a)
              im == IF k \in DOMAIN imag THEN imag[k] ELSE NoVal
          IN IF ~BcOK(e.f.b_c, r, k[1], k[2]) THEN "b_c"
             ELSE IF ~NumIs(e.f.bp, Fix(r.bp)) THEN "bp"
             ELSE IF ~NumIs(e.f.bm, Fix(r.bm)) THEN "bm"
             ELSE IF ~NumIs(e.f.coherent, Fix(r.coh)) THEN "coherent"
             ELSE IF ~NumIs(e.f.incoherent, Fix(r.inc)) THEN "incoherent"
             ELSE IF ~NumIs(e.f.total, Total(r, k[1], k[2])) THEN "total"
             ELSE IF ~NumIs(e.f.absorption, Fix(r.abs)) THEN "absorption"
             ELSE IF e.edep # (r.flag = "E") THEN "is_energy_dependent"
             ELSE IF e.a # 0 /\ ~NumIs(e.f.abundance, Abund(r, e.a)) THEN "abundance"
             ELSE IF e.a # 0 /\ e.spin # r.spin THEN "nuclear_spin"
             ELSE IF ~IsNone(im) /\ (~NumIs(e.f.b_c_i, Fix(im.b_c_i)) \/ ~NumIs(e.f.bp_i, Fix(im.bp_i)) \/ ~NumIs(e.f.bm_i, Fix(im.bm_i)))
                  THEN "imaginary_table"
             ELSE IF e.bcc.im.k # "num" \/ ~Close(MulInt(e.bcc.im.v, 3596), Neg(Fix(r.abs)), -13) THEN "b_c_complex_imag"
             ELSE IF ~(IF e.f.b_c.k = "num" THEN e.bcc.re.k = "num" /\ Close(e.bcc.re.v, e.f.b_c.v, -14) ELSE e.bcc.re.k = "nan") THEN "b_c_complex_real"
             ELSE IF e.has_sld # (e.f.b_c.k = "num" /\ e.has_nd) THEN "has_sld"
             ELSE "ok"
\* energy-dependent node: E (eV) tabulated with (re, im); the library's wavelength for it and what it returns there
KE == Hdr.energy_factor                   \* E(meV) * lambda^2, computed by the harness from the raw constants and verified below
NodeClause(e) ==
  IF "exc" \in DOMAIN e THEN "NodeRaised"
  ELSE IF e.lam.k # "num" \/ ~Close(Mul(Sq(e.lam.v), MulInt(e.E, 1000)), KE, -12) THEN "NodeWavelength"
  ELSE IF e.kind = "table" /\ (~NumIs(e.got_re, e.re) \/ ~NumIs(e.got_im, e.im)) THEN "NodeValueIsTabulated"
  ELSE IF e.kind = "lumix" /\
          (~Close(MulInt(e.got_re.v, 100), Add(Mul(e.bc175_re, e.ab175), Mul(e.re, e.ab176)), -12)
           \/ ~Close(MulInt(e.got_im.v, 100), Add(Mul(e.bc175_im, e.ab175), Mul(e.im, e.ab176)), -12)) THEN "NaturalLuIsIsotopeMix"
  ELSE IF e.sigma.k # "num" \/ ~Close(MulInt(e.sigma.v, 100), MulP(MulInt(Pi, 4), Add(Sq(e.got_re.v), Sq(e.got_im.v)), 14), -11) THEN "NodeSigmaS"
  ELSE "ok"
\* K = h^2 e / (2 m_n u) * 1e23 from the raw constants
KClause == LET c == Hdr.consts
               num == Mul(Mul(Sq(c.plancks_constant), c.electron_volt), Sci(1, 23))
               den == Mul(MulInt(c.neutron_mass, 2), c.atomic_mass_constant)
           IN IF Close(Mul(KE, den), num, -13) THEN "ok" ELSE "EnergyFactorWitness"
Emit(id, c) == c # "ok" => PrintT("@@" \o ToJson([id |-> id, clause |-> c]))
Step ==
  /\ l <= Len(Log)
  /\ l' = l + 1
  /\ LET e == Log[l]
     IN CASE e.ev = "nsfrow" ->
               /\ rows' = (<<e.z, e.a>> :> e) @@ rows
               /\ firstiso' = IF e.a # 0 /\ <<e.z, 0>> \notin DOMAIN rows /\ e.z \notin DOMAIN firstiso
                              THEN (e.z :> e.a) @@ firstiso ELSE firstiso
               /\ Emit(e.id, IF e.sym = Hdr.symof[ToString(e.z)] THEN "ok" ELSE "SymbolMatchesZ")
               /\ UNCHANGED imag
          [] e.ev = "nsfI" -> imag' = (<<e.z, e.a>> :> e) @@ imag /\ UNCHANGED <<rows, firstiso>>
          [] e.ev = "kcheck" -> Emit("kcheck", KClause) /\ UNCHANGED <<rows, imag, firstiso>>
          [] e.ev = "serve" -> Emit(e.id, ServeClause(e)) /\ UNCHANGED <<rows, imag, firstiso>>
          [] e.ev = "enode" -> Emit(e.id, NodeClause(e)) /\ UNCHANGED <<rows, imag, firstiso>>
TraceSpec == Init /\ [][Step]_vars
Done == TLCGet("stats").diameter = Len(Log) /\ PrintT("@@" \o ToJson([summary |-> TRUE, events |-> Len(Log) - 1]))
=============================================================================
