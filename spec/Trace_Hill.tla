------------------------------ MODULE Trace_Hill ------------------------------
(***************************************************************************)
(* Trace validation for C19 (Hill form is a canonical, composition-        *)
(* preserving normal form).  One event = one composition built in several  *)
(* orders / groupings (variants) in the real code, with for each variant   *)
(* its atom counts, the flat structure of its Hill form and that form's    *)
(* atom counts, and the code's own == results.                             *)
(*   HillPreservesAtoms   bag(f.hill) = bag(f)                              *)
(*   HillOrder            C first, H second, others by symbol, isotopes of  *)
(*                        one element by mass number                       *)
(*   Canonical            all variants have the same Hill structure, and   *)
(*                        the code's == says so                            *)
(*   Idempotent           h.hill == h                                       *)
(*   ParsedEqualsItsHill  formula(str(h)) == formula(str(h)).hill == h      *)
(***************************************************************************)
EXTENDS Json, IOUtils, TLCExt, Sequences, Integers, TLC, Dec
Log == ndJsonDeserialize(IOEnv.TRACE_FILE)
VARIABLE l
SameAtom(x, y) == x.z = y.z /\ x.a = y.a /\ x.q = y.q /\ x.t = y.t          \* (t: the table the atom belongs to)
\* two sorted bags (lists of [z,a,q,t,c]) are equal: the Hill form regroups the formula's own atom counts, it does not
\* recompute them, so the counts are the same numbers
RECURSIVE SameBag(_, _)
SameBag(x, y) == IF x = <<>> \/ y = <<>> THEN x = <<>> /\ y = <<>>
                 ELSE SameAtom(Head(x), Head(y)) /\ Eq(Head(x).c, Head(y).c) /\ SameBag(Tail(x), Tail(y))
RECURSIVE LexLess(_, _)
LexLess(s, t) == IF s = <<>> THEN t # <<>>                 \* strict lexicographic order on character codes
                 ELSE IF t = <<>> THEN FALSE
                 ELSE IF Head(s) # Head(t) THEN Head(s) < Head(t) ELSE LexLess(Tail(s), Tail(t))
Cc == <<67>>   Hc == <<72>>
Class(it) == IF it.sym = Cc THEN 0 ELSE IF it.sym = Hc THEN 1 ELSE 2
\* a must not come after b
InOrder(a, b) == \/ Class(a) < Class(b)
                 \/ Class(a) = Class(b) /\ LexLess(a.sym, b.sym)
                 \/ Class(a) = Class(b) /\ a.sym = b.sym /\ a.a <= b.a
Ordered(h) == \A i \in 1..(Len(h) - 1) : InOrder(h[i], h[i + 1])
Distinct(h) == \A i, j \in 1..Len(h) : i # j => ~SameAtom(h[i], h[j])
RECURSIVE SameFlat(_, _)
SameFlat(x, y) == IF x = <<>> \/ y = <<>> THEN x = <<>> /\ y = <<>>
                  ELSE SameAtom(Head(x), Head(y)) /\ Close(Head(x).c, Head(y).c, -12) /\ SameFlat(Tail(x), Tail(y))
Clause(e) ==
  IF "exc" \in DOMAIN e THEN "HillComputes"
  ELSE IF e.nested THEN "HillIsFlat"
  ELSE IF \E i \in DOMAIN e.bags : ~SameBag(e.bags[i], e.hillbags[i]) THEN "HillPreservesAtoms"
  ELSE IF \E i \in DOMAIN e.hills : ~Ordered(e.hills[i]) \/ ~Distinct(e.hills[i]) THEN "HillOrder"
  ELSE IF \E i \in DOMAIN e.hills : ~SameFlat(e.hills[1], e.hills[i]) THEN "Canonical"
  ELSE IF \E i \in DOMAIN e.eq : ~e.eq[i] THEN "CanonicalUnderEq"
  ELSE IF \E i \in DOMAIN e.idem : ~e.idem[i] THEN "Idempotent"
  ELSE IF ~e.parsed_eq_hill \/ ~e.parsed_is_same THEN "ParsedEqualsItsHill"
  ELSE "ok"
Init == l = 2
Next == /\ l <= Len(Log)
        /\ LET c == Clause(Log[l]) IN (c # "ok" => PrintT("@@" \o ToJson([i |-> l, clause |-> c, id |-> Log[l].id])))
        /\ l' = l + 1
TraceSpec == Init /\ [][Next]_l
Done == TLCGet("stats").diameter = Len(Log) /\ PrintT("@@" \o ToJson([summary |-> TRUE, events |-> Len(Log) - 1]))
=============================================================================
