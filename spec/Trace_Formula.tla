---------------------------- MODULE Trace_Formula ----------------------------
(***************************************************************************)
(* Trace validation for C02.  Line 1: header.  Every further line is one   *)
(* history of pool operations executed on the real code: ops, and after    *)
(* each op the observed pool (per variable: composition as [atom index,    *)
(* Dec count] pairs, identity class) and, for the variable written, its    *)
(* mass / charge / mass fractions / molecular mass, plus the atom data the *)
(* library served (mass, neutral-atom mass, charge per atom index).        *)
(* The model PTFormula is run along the ops; every observation must equal  *)
(* the model (compositions exactly, numbers to 1e-12).                     *)
(***************************************************************************)
EXTENDS PTFormula, Dec, Json, IOUtils, TLCExt
Log == ndJsonDeserialize(IOEnv.TRACE_FILE)
Hdr == Log[1]
VARIABLE l
QDec(x) == LET RECURSIVE H(_, _)
               H(d, k) == IF k = 0 THEN d ELSE H(Half(d), k - 1)
           IN H(FromInt(x.n), x.e)
\* observed composition (sequence of [i, c]) equals a model bag
ObsBagOK(ob, bag) ==
  /\ \A k \in DOMAIN ob : ob[k].i \in 1..NSlots /\ Close(ob[k].c, QDec(bag[ob[k].i]), -12)
  /\ \A a \in 1..NSlots : bag[a].n # 0 => \E k \in DOMAIN ob : ob[k].i = a
  /\ \A j, k \in DOMAIN ob : j # k => ob[j].i # ob[k].i
VarSeq == Hdr.vars
PoolWhy(s, al) ==        \* first disagreement between the model state and the observed pool
  IF \E k \in DOMAIN VarSeq : (s.pool[VarSeq[k]] = None) # (al[k].bound = FALSE) THEN "Binding"
  ELSE IF \E k \in DOMAIN VarSeq : al[k].bound /\ ~ObsBagOK(al[k].bag, s.obj[s.pool[VarSeq[k]]]) THEN "Composition"
  ELSE IF \E j, k \in DOMAIN VarSeq : al[j].bound /\ al[k].bound /\
             ((s.pool[VarSeq[j]] = s.pool[VarSeq[k]]) # (al[j].cls = al[k].cls)) THEN "Identity"
  ELSE "ok"
\* numeric clauses for the variable written by the op
SumOver(f(_), n) == LET RECURSIVE S(_)
                        S(k) == IF k = 0 THEN Zero ELSE Add(f(k), S(k - 1))
                    IN S(n)
NumWhy(h, bag, num) ==
  LET m(a) == h.atoms[a].m   q(a) == h.atoms[a].q          \* (masses are per table: a private table may have its own)
      cnt(a) == QDec(bag[a])
      mass == SumOver(LAMBDA a : Mul(cnt(a), m(a)), NSlots)
      charge == SumOver(LAMBDA a : Mul(cnt(a), FromInt(q(a))), NSlots)
  IN IF "exc" \in DOMAIN num THEN (IF IsZero(mass) THEN "ok" ELSE "NumbersCompute")
     ELSE IF ~Close(num.mass, mass, -12) THEN "MassIsSum"
     ELSE IF ~Close(num.charge, charge, -12) THEN "ChargeIsSum"
     ELSE IF ~Close(Mul(num.molecular_mass, Hdr.avogadro), mass, -12) THEN "MolecularMass"
     ELSE IF IsZero(mass) THEN "ok"
     ELSE IF \E k \in DOMAIN num.frac : ~Close(Mul(num.frac[k].c, mass), Mul(cnt(num.frac[k].i), m(num.frac[k].i)), -11)
          THEN "FractionsAreShares"
     ELSE IF ~Close(SumOver(LAMBDA k : num.frac[k].c, Len(num.frac)), One, -11) THEN "FractionsSumToOne"
     ELSE "ok"
AtomWhy(h) ==           \* an ion weighs its atom less charge electron masses
  IF \E a \in 1..NSlots : ~Close(h.atoms[a].m, Sub(h.atoms[a].mbase, Mul(FromInt(h.atoms[a].q), Hdr.electron_mass)), -14)
  THEN "IonMassLessElectrons" ELSE "ok"
RECURSIVE Walk(_, _, _)
Walk(s, h, i) ==
  IF i > Len(h.ops) THEN [step |-> 0, clause |-> "ok"]
  ELSE LET op == h.ops[i]
       IN IF ~Enabled(s, op) THEN [step |-> i, clause |-> "HarnessOpNotEnabled"]
          ELSE LET t == ApplyOp(s, op)
                   w == PoolWhy(t, h.steps[i].pool)
                   wv == IF op.op \in {"iadd", "chtab"} THEN op.a ELSE op.v
                   nw == IF w = "ok" /\ "num" \in DOMAIN h.steps[i] /\ t.pool[wv] # None
                         THEN NumWhy(h, t.obj[t.pool[wv]], h.steps[i].num) ELSE "ok"
               IN IF w # "ok" THEN [step |-> i, clause |-> w]
                  ELSE IF nw # "ok" THEN [step |-> i, clause |-> nw]
                  ELSE Walk(t, h, i + 1)
Clause(h) == IF "exc" \in DOMAIN h THEN [step |-> 0, clause |-> "HistoryExecutes"]
             ELSE IF AtomWhy(h) # "ok" THEN [step |-> 0, clause |-> AtomWhy(h)]
             ELSE Walk(S0, h, 1)
TInit == l = 2 /\ pool = S0.pool /\ obj = S0.obj /\ nobj = 0 /\ hist = <<>>
TNext == /\ l <= Len(Log)
         /\ LET c == Clause(Log[l]) IN (c.clause # "ok" => PrintT("@@" \o ToJson([id |-> Log[l].id, clause |-> c.clause, step |-> c.step])))
         /\ l' = l + 1
         /\ UNCHANGED fvars
TraceSpec == TInit /\ [][TNext]_<<l, pool, obj, nobj, hist>>
Done == TLCGet("stats").diameter = Len(Log) /\ PrintT("@@" \o ToJson([summary |-> TRUE, events |-> Len(Log) - 1]))
=============================================================================
