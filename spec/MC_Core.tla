------------------------------ MODULE MC_Core ------------------------------
(* Small universe for PTCore: H (constructor isotope D = 2, mass table {1, 2}, charge 1) and one
   ordinary element (one mass-table isotope, one addable isotope, one charge); one private table.
   MC_Core.cfg checks it exhaustively; the C08 driver runs it with -simulate and replays every
   printed behaviour (call by call, with the expected heap after each call) in the real code. *)
EXTENDS PTCore
MCCtor(z) == CASE z = 1 -> {2} [] OTHER -> {}
MCIso(z) == CASE z = 1 -> {1, 2} [] z = 8 -> {16} [] OTHER -> {}
MCExtra(z) == CASE z = 8 -> {99} [] OTHER -> {}
MCNoExtra(z) == {}
MCIon(z) == CASE z = 1 -> {1} [] z = 8 -> {-2} [] OTHER -> {}
=============================================================================
