------------------------------ MODULE PTReaders ------------------------------
(***************************************************************************)
(* Notation readers shared by the embedded-table specifications (C06, C07, *)
(* C20, C14).  The harness only lexes a field into a tagged record; what   *)
(* the notation means is decided here, from the documented formats.        *)
(*                                                                         *)
(*  value(unc) / [nominal] / [low,high] / bare value  (util.parse_uncertainty, *)
(*  module docstrings of mass.py):                                         *)
(*   [k |-> "plain",   v]                     value, uncertainty 0         *)
(*   [k |-> "nominal", v]                     [v], uncertainty 0           *)
(*   [k |-> "unc", v, ud, vdec, udot, vdot]   v(ud): ud counts units of the*)
(*        last decimal of v unless either carries its own decimal point    *)
(*   [k |-> "range", lo, hi]                  midpoint, (hi-lo)/sqrt(12)   *)
(*   [k |-> "empty"]                          missing                      *)
(***************************************************************************)
EXTENDS Dec, Integers, Sequences
NoVal == [none |-> TRUE]
IsNone(x) == "none" \in DOMAIN x
\* value of a notation record
UncValue(n) == CASE n.k = "plain" -> n.v [] n.k = "nominal" -> n.v [] n.k = "unc" -> n.v
                 [] n.k = "range" -> Half(Add(n.lo, n.hi)) [] n.k = "empty" -> NoVal
\* does a served uncertainty su agree with the notation?
UncOK(su, n) ==
  CASE n.k \in {"plain", "nominal"} -> IsZero(su)
    [] n.k = "unc" -> IF ~n.udot /\ n.vdot THEN Close(su, Mul(n.ud, Sci(1, -n.vdec)), -13) ELSE Close(su, n.ud, -13)
    [] n.k = "range" -> su.s >= 0 /\ Close(Mul(Sq(su), FromInt(12)), Sq(Sub(n.hi, n.lo)), -12)
    [] n.k = "empty" -> FALSE
\* the uncertainty itself where it is rational (not for ranges)
UncOf(n) == CASE n.k \in {"plain", "nominal"} -> Zero
              [] n.k = "unc" -> IF ~n.udot /\ n.vdot THEN Mul(n.ud, Sci(1, -n.vdec)) ELSE n.ud
\* an upper bound of the uncertainty usable for "within the stated uncertainty" (ranges: half width)
UncBound(n) == IF n.k = "range" THEN Half(Sub(n.hi, n.lo)) ELSE UncOf(n)
=============================================================================
