------------------------------ MODULE Trace_Fasta ------------------------------
(***************************************************************************)
(* C18: a biomolecule sequence is the sum of its residues.                 *)
(*  seq   a code string with what the library serves for each residue code *)
(*        and for the whole sequence; the spec strips spaces, cuts at the  *)
(*        first '*', counts the codes and checks the sums                  *)
(*  avg   an ambiguity code against the equal-weight average of the codes  *)
(*        it stands for (the tables of the documentation, below)           *)
(*  perm  two orderings of the same multiset of codes                      *)
(***************************************************************************)
EXTENDS PTReaders, Json, IOUtils, TLCExt, TLC, FiniteSets
Log == ndJsonDeserialize(IOEnv.TRACE_FILE)
Hdr == Log[1]
VARIABLE l
Num(x) == x.k = "num"
\* ---- the code string -------------------------------------------------------------------
RECURSIVE CutStar(_)
CutStar(cs) == IF cs = <<>> THEN <<>> ELSE IF Head(cs) = "*" THEN <<>> ELSE <<Head(cs)>> \o CutStar(Tail(cs))
Codes(cs) == SelectSeq(CutStar(cs), LAMBDA c : c # " ")
Count(cs, c) == Len(SelectSeq(cs, LAMBDA x : x = c))
CodeSet(cs) == {cs[i] : i \in DOMAIN cs}
\* ---- ambiguity codes (what each stands for) ------------------------------------------------
AAStands(c) == CASE c = "B" -> <<"D", "N">> [] c = "J" -> <<"L", "I">> [] c = "Z" -> <<"E", "Q">>
                 [] c = "X" -> <<"A","C","D","E","F","G","H","I","K","L","M","N","P","Q","R","S","T","V","W","Y">>
                 [] c = "-" -> <<>> [] OTHER -> <<c>>
NAStands(c) == CASE c = "U" -> <<"T">> [] c = "R" -> <<"A", "G">> [] c = "Y" -> <<"C", "T">> [] c = "K" -> <<"G", "T">>
                 [] c = "M" -> <<"A", "C">> [] c = "S" -> <<"C", "G">> [] c = "W" -> <<"A", "T">> [] c = "B" -> <<"C", "G", "T">>
                 [] c = "D" -> <<"A", "G", "T">> [] c = "H" -> <<"A", "C", "T">> [] c = "V" -> <<"A", "C", "G">>
                 [] c = "N" -> <<"A", "C", "G", "T">> [] c = "X" -> <<>> [] c = "-" -> <<>> [] OTHER -> <<c>>
\* ---- bags ------------------------------------------------------------------------------------
Keys(b) == {b[i].key : i \in DOMAIN b}
RECURSIVE CountOf(_, _)
CountOf(b, k) == IF b = <<>> THEN Zero ELSE Add(IF Head(b).key = k THEN Head(b).n ELSE Zero, CountOf(Tail(b), k))
\* sum over distinct codes of count * value
SumOver(S, f(_)) == LET RECURSIVE T(_)
                        T(X) == IF X = {} THEN Zero ELSE LET c == CHOOSE x \in X : TRUE IN Add(f(c), T(X \ {c}))
                    IN T(S)
SeqClause(e) ==
  LET cs == Codes(e.chars)
      S == CodeSet(cs)
      cnt == [c \in S |-> FromInt(Count(cs, c))]
      tot(fld) == SumOver(S, LAMBDA c : Mul(cnt[c], e.res[c][fld]))
      keys == UNION {Keys(e.res[c].atoms) : c \in S}
      atomsum == [k \in keys |-> SumOver(S, LAMBDA c : Mul(cnt[c], CountOf(e.res[c].atoms, k)))]
      natkeys == UNION {Keys(e.res[c].natatoms) : c \in S}
      natsum == [k \in natkeys |-> SumOver(S, LAMBDA c : Mul(cnt[c], CountOf(e.res[c].natatoms, k)))]
  IN IF "exc" \in DOMAIN e THEN "SequenceComputes"
     ELSE IF \E c \in S : c \notin DOMAIN e.res THEN "HarnessMissingResidue"
     ELSE IF Keys(e.seq.atoms) # {k \in keys : atomsum[k].s # 0} THEN "FormulaAtoms"
     ELSE IF \E k \in Keys(e.seq.atoms) : ~Close(CountOf(e.seq.atoms, k), atomsum[k], -11) THEN "FormulaIsSumOfResidues"
     ELSE IF Keys(e.seq.natatoms) # {k \in natkeys : natsum[k].s # 0}
             \/ \E k \in Keys(e.seq.natatoms) : ~Close(CountOf(e.seq.natatoms, k), natsum[k], -11) THEN "NaturalFormulaIsSumOfResidues"
     ELSE IF ~Close(e.seq.V, tot("V"), -11) THEN "CellVolumeIsSum"
     ELSE IF ~CloseScaled(e.seq.charge, tot("charge"), -11, FromInt(Len(cs) + 1)) THEN "ChargeIsSum"
     ELSE IF ~Close(e.seq.mass, tot("mass"), -11) THEN "MassIsSum"
     ELSE IF ~Close(e.seq.Dmass, tot("Dmass"), -11) THEN "DMassIsSum"
     ELSE IF cs # <<>> /\ (~Num(e.seq.density) \/ ~Close(Mul(Mul(e.seq.density.v, e.seq.V), Hdr.avogadro), Mul(e.seq.labile_mass, Sci(1, 24)), -11))
          THEN "DensityIsMassOverVolume"
     ELSE IF "prefix" \in DOMAIN e /\
             (Keys(e.prefix) # Keys(e.seq.atoms) \/ \E k \in Keys(e.prefix) : ~Close(CountOf(e.prefix, k), CountOf(e.seq.atoms, k), -12))
          THEN "PrefixRouteSameFormula"
     ELSE "ok"
AvgClause(e) ==
  LET parts == IF e.type = "aa" THEN AAStands(e.code) ELSE NAStands(e.code)
      n == Len(parts)
      keys == UNION {Keys(e.res[parts[i]].atoms) : i \in DOMAIN parts}
      sumf(fld) == SumOver({i : i \in DOMAIN parts}, LAMBDA i : e.res[parts[i]][fld])
      suma(k) == SumOver({i : i \in DOMAIN parts}, LAMBDA i : CountOf(e.res[parts[i]].atoms, k))
      me == e.res[e.code]
  IN IF n = 0 THEN (IF me.atoms = <<>> /\ IsZero(me.V) /\ IsZero(me.charge) THEN "ok" ELSE "GapIsEmpty")
     ELSE IF Keys(me.atoms) # keys \/ \E k \in keys : ~Close(MulInt(CountOf(me.atoms, k), n), suma(k), -11) THEN "AverageFormula"
     ELSE IF ~Close(MulInt(me.V, n), sumf("V"), -11) THEN "AverageVolume"
     ELSE IF ~CloseScaled(MulInt(me.charge, n), sumf("charge"), -11, FromInt(n)) THEN "AverageCharge"
     ELSE IF ~Close(MulInt(me.mass, n), sumf("mass"), -10) THEN "AverageMass"
     ELSE "ok"
SameVal(a, b) == /\ Keys(a.atoms) = Keys(b.atoms) /\ \A k \in Keys(a.atoms) : Close(CountOf(a.atoms, k), CountOf(b.atoms, k), -11)
                 /\ Close(a.V, b.V, -11) /\ CloseScaled(a.charge, b.charge, -11, One) /\ Close(a.mass, b.mass, -11) /\ Close(a.Dmass, b.Dmass, -11)
                 /\ a.density.k = b.density.k /\ (Num(a.density) => Close(a.density.v, b.density.v, -11))
PermClause(e) == IF SameVal(e.a, e.b) THEN "ok" ELSE "OrderIndependent"
Clause(e) == CASE e.ev = "seq" -> SeqClause(e) [] e.ev = "avg" -> AvgClause(e) [] e.ev = "perm" -> PermClause(e)
Init == l = 2
Next == /\ l <= Len(Log)
        /\ LET c == Clause(Log[l]) IN (c # "ok" => PrintT("@@" \o ToJson([id |-> Log[l].id, clause |-> c])))
        /\ l' = l + 1
TraceSpec == Init /\ [][Next]_l
Done == TLCGet("stats").diameter = Len(Log) /\ PrintT("@@" \o ToJson([summary |-> TRUE, events |-> Len(Log) - 1]))
=============================================================================
