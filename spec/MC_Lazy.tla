------------------------------ MODULE MC_Lazy ------------------------------
(* Model-checking wrapper for PTLazy: emits the explored graph (one JSON line per
   distinct state with its non-loop successors and its self-loop events) so that
   the harness can replay every transition in the real code, and reports the
   states in which the requirement-level invariants fail without stopping. *)
EXTENDS PTLazy, Json, SequencesExt
EncSt(s) == [cls |-> {<<cp[1], cp[2], s.cls[cp]>> : cp \in {x \in DOMAIN s.cls : s.cls[x] # "abs"}},
             inst |-> s.inst, asg |-> s.asg, tp |-> [T \in Tables |-> s.tp[T]], tabs |-> s.tabs, mut |-> s.mut, det |-> s.det]
Moves(s) == {ev \in Events(s) : Apply(s, ev) # s}
Emit == PrintT("@@" \o ToJson([s |-> EncSt(st),
                               moves |-> {[e |-> ev, t |-> EncSt(Apply(st, ev))] : ev \in Moves(st)},
                               loops |-> Events(st) \ Moves(st),
                               bad |-> BadCells(st),
                               shared |-> {<<T, a, p>> \in Live(st) \X Atoms \X ActiveProps : ForeignMut(st, T, a, p)},
                               fresh |-> {<<T, a, p>> \in st.tabs \X Atoms \X ActiveProps :
                                            PrivInitialised(st, T, p) /\ Served(st, T, a, p) \notin {"A", "M"}
                                            /\ Served(st, T, a, p) # Canon(a, p)}]))
=============================================================================
