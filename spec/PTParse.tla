------------------------------- MODULE PTParse -------------------------------
(***************************************************************************)
(* Token-level recogniser for the documented compound grammar, and the     *)
(* structural equality "same nesting and atoms, counts equal to six        *)
(* significant digits" used by C13 (and by C19 for printed Hill forms).    *)
(*                                                                         *)
(* Tokens (the harness lexes characters by maximal munch into):            *)
(*   [t |-> "sym", s]  [t |-> "iso", n]  [t |-> "ion", q]                  *)
(*   [t |-> "num", v (Dec)]  [t |-> "lp"]  [t |-> "rp"]  [t |-> "sep"]     *)
(*   [t |-> "bad"] for anything else                                        *)
(* White space and '+' are "sep" tokens, so adjacency is explicit: a num   *)
(* directly after an element or ')' is its count; a num after a sep (or at *)
(* the start, or after '(') is the leading count of an element run.         *)
(*                                                                         *)
(* Structures: sequences of items [c |-> Dec, k |-> "atom", z, a, q] or    *)
(* [c |-> Dec, k |-> "grp", body |-> structure].                           *)
(***************************************************************************)
EXTENDS Dec, Sequences, Integers, TLC
CONSTANT SymZ          \* function: element symbol -> atomic number

Fail == [ok |-> FALSE, i |-> 0, items |-> <<>>]
Tok(toks, i) == IF i <= Len(toks) THEN toks[i] ELSE [t |-> "eof"]
AtomOf(sym, iso, q) == IF sym = "D" THEN [z |-> 1, a |-> 2, q |-> q]
                       ELSE IF sym = "T" THEN [z |-> 1, a |-> 3, q |-> q]
                       ELSE [z |-> SymZ[sym], a |-> iso, q |-> q]
KnownSym(s) == s \in DOMAIN SymZ \/ s \in {"D", "T"}

\* element :: symbol isotope? ion? count?
ParseElement(toks, i) ==
  IF Tok(toks, i).t # "sym" \/ ~KnownSym(Tok(toks, i).s) THEN Fail
  ELSE LET sym == toks[i].s
           hasIso == Tok(toks, i + 1).t = "iso"
           i2 == IF hasIso THEN i + 2 ELSE i + 1
           hasIon == Tok(toks, i2).t = "ion"
           i3 == IF hasIon THEN i2 + 1 ELSE i2
           hasCnt == Tok(toks, i3).t = "num"
           i4 == IF hasCnt THEN i3 + 1 ELSE i3
       IN IF hasIso /\ sym \in {"D", "T"} THEN Fail            \* D[2] is not in the grammar: D is already an isotope
          ELSE LET at == AtomOf(sym, IF hasIso THEN toks[i + 1].n ELSE 0, IF hasIon THEN toks[i2].q ELSE 0)
               IN [ok |-> TRUE, i |-> i4,
                   items |-> << [c |-> IF hasCnt THEN toks[i3].v ELSE One, k |-> "atom", z |-> at.z, a |-> at.a, q |-> at.q] >>]
RECURSIVE ParseElements(_, _, _)
ParseElements(toks, i, acc) ==                           \* element+
  LET r == ParseElement(toks, i)
  IN IF ~r.ok THEN (IF acc = <<>> THEN Fail ELSE [ok |-> TRUE, i |-> i, items |-> acc])
     ELSE ParseElements(toks, r.i, acc \o r.items)
RECURSIVE ParseCompound(_, _, _), ParseGroup(_, _, _)
\* group :: count element+ | '(' formula ')' count
ParseGroup(toks, i, depth) ==
  LET t == Tok(toks, i)
  IN IF t.t = "num"
     THEN LET r == ParseElements(toks, i + 1, <<>>)
          IN IF ~r.ok THEN Fail ELSE [ok |-> TRUE, i |-> r.i, items |-> << [c |-> t.v, k |-> "grp", body |-> r.items] >>]
     ELSE IF t.t = "sym" THEN ParseElements(toks, i, <<>>)
     ELSE IF t.t = "lp" /\ depth < 40
          THEN LET Blank(k) == Tok(toks, k).t = "sep" /\ ("plus" \notin DOMAIN toks[k] \/ ~toks[k].plus)
                   i1 == IF Blank(i + 1) THEN i + 2 ELSE i + 1                      \* blanks (not '+') allowed inside the parentheses
                   r == ParseCompound(toks, i1, depth + 1)
                   i2 == IF r.ok /\ Blank(r.i) THEN r.i + 1 ELSE r.i
               IN IF ~r.ok \/ Tok(toks, i2).t # "rp" THEN Fail
                  ELSE IF Tok(toks, i2 + 1).t = "num"
                       THEN [ok |-> TRUE, i |-> i2 + 2, items |-> << [c |-> toks[i2 + 1].v, k |-> "grp", body |-> r.items] >>]
                       ELSE [ok |-> TRUE, i |-> i2 + 1, items |-> << [c |-> One, k |-> "grp", body |-> r.items] >>]
     ELSE Fail
RECURSIVE MoreGroups(_, _, _, _)
MoreGroups(toks, i, depth, acc) ==                       \* (separator group)*
  LET j == IF Tok(toks, i).t = "sep" THEN i + 1 ELSE i
      r == ParseGroup(toks, j, depth)
  IN IF r.ok THEN MoreGroups(toks, r.i, depth, acc \o r.items)
     ELSE [ok |-> TRUE, i |-> i, items |-> acc]
ParseCompound(toks, i, depth) ==
  LET r == ParseGroup(toks, i, depth)
  IN IF ~r.ok THEN Fail ELSE MoreGroups(toks, r.i, depth, r.items)
\* the whole token string is a compound of the grammar (the empty string is the empty formula)
ParseAll(toks) == IF toks = <<>> THEN [ok |-> TRUE, i |-> 1, items |-> <<>>]
                  ELSE LET r == ParseCompound(toks, 1, 0)
                           j == IF r.ok /\ Tok(toks, r.i).t = "sep" /\ ("plus" \notin DOMAIN toks[r.i] \/ ~toks[r.i].plus) THEN r.i + 1 ELSE r.i
                       IN IF r.ok /\ j = Len(toks) + 1 THEN r ELSE Fail

\* a compound with an optional density tag [t |-> "dens", v, kind] at the end
ParseTagged(toks) ==
  IF toks # <<>> /\ toks[Len(toks)].t = "dens"
  THEN LET r == ParseAll(SubSeq(toks, 1, Len(toks) - 1))
       IN IF r.ok /\ Len(toks) > 1 THEN [ok |-> TRUE, items |-> r.items, dens |-> toks[Len(toks)]] ELSE [ok |-> FALSE, items |-> <<>>, dens |-> [t |-> "none"]]
  ELSE LET r == ParseAll(toks) IN [ok |-> r.ok, items |-> r.items, dens |-> [t |-> "none"]]
\* The documentation does not say whether a blank may follow the leading count of a group ("2 H2O").  The loose
\* reading drops such blanks; a string is certainly in the grammar if the strict parse succeeds and certainly
\* outside if even the loose parse fails.
RECURSIVE Loose(_, _)
Loose(toks, i) ==
  IF i > Len(toks) THEN <<>>
  ELSE IF toks[i].t = "sep" /\ i > 1 /\ toks[i - 1].t = "num" /\ ("plus" \notin DOMAIN toks[i] \/ ~toks[i].plus)
          \* (a number after a number is a leading count too: the separator between two groups may be empty)
          /\ (i = 2 \/ toks[i - 2].t \in {"sep", "lp", "num"}) /\ Tok(toks, i + 1).t = "sym"
       THEN Loose(toks, i + 1)
       ELSE <<toks[i]>> \o Loose(toks, i + 1)
\* denotation of a structure: sequence of [z, a, q, c] with repeated atoms added and group counts multiplied in
RECURSIVE FlatAtoms(_, _)
FlatAtoms(items, mult) ==
  IF items = <<>> THEN <<>>
  ELSE LET it == Head(items)
       IN (IF it.k = "atom" THEN << [z |-> it.z, a |-> it.a, q |-> it.q, c |-> Mul(mult, it.c)] >>
           ELSE FlatAtoms(it.body, Mul(mult, it.c))) \o FlatAtoms(Tail(items), mult)
AtomKeys(fl) == {<<fl[i].z, fl[i].a, fl[i].q>> : i \in DOMAIN fl}
RECURSIVE TotalOf(_, _)
TotalOf(fl, k) == IF fl = <<>> THEN Zero
                  ELSE Add(IF <<Head(fl).z, Head(fl).a, Head(fl).q>> = k THEN Head(fl).c ELSE Zero, TotalOf(Tail(fl), k))

\* ---- equality up to six significant digits --------------------------------------
Digits(n) == IF n >= 1000 THEN 4 ELSE IF n >= 100 THEN 3 ELSE IF n >= 10 THEN 2 ELSE 1
Log10Floor(x) == 4 * (Top(x) - 1) + Digits(x.m[Len(x.m)]) - 1          \* x > 0
TrailZeros(n) == IF n % 1000 = 0 THEN 3 ELSE IF n % 100 = 0 THEN 2 ELSE IF n % 10 = 0 THEN 1 ELSE 0
SigDigits(x) == IF x.s = 0 THEN 1 ELSE 4 * (Len(x.m) - 1) + Digits(x.m[Len(x.m)]) - TrailZeros(x.m[1])
\* printed value p of an original count c > 0: at most 6 significant digits, within half a unit of the 6th digit of c
SameUpTo6(c, p) == /\ p.s = 1 /\ c.s = 1 /\ SigDigits(p) <= 6
                   /\ Le(Abs(Sub(c, p)), MulP(Sci(5, Log10Floor(c) - 6), FromInt(1), 4))
IsOne6(c) == SameUpTo6(c, One)
\* inline groups whose count is 1 (to six digits): "(H2O)1" and "H2O" have the same nesting
RECURSIVE Inline(_)
Inline(items) ==
  IF items = <<>> THEN <<>>
  ELSE LET it == Head(items)
       IN IF it.k = "grp"
          THEN (IF IsOne6(it.c) THEN Inline(it.body) ELSE << [it EXCEPT !.body = Inline(it.body)] >>) \o Inline(Tail(items))
          ELSE <<it>> \o Inline(Tail(items))
RECURSIVE SameItems(_, _)
SameItems(x, y) ==                                       \* x original (inlined), y printed/reparsed (inlined)
  IF x = <<>> \/ y = <<>> THEN x = <<>> /\ y = <<>>
  ELSE LET a == Head(x)  b == Head(y)
       IN /\ a.k = b.k
          /\ SameUpTo6(a.c, b.c)
          /\ IF a.k = "atom" THEN a.z = b.z /\ a.a = b.a /\ a.q = b.q ELSE SameItems(a.body, b.body)
          /\ SameItems(Tail(x), Tail(y))
SameFormula6(orig, other) == SameItems(Inline(orig), Inline(other))
=============================================================================
