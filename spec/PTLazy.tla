------------------------------- MODULE PTLazy -------------------------------
(***************************************************************************)
(* Implementation-shaped model of periodictable's lazy property loader     *)
(* (core.delayed_load + the init() functions of the property modules) and  *)
(* of private tables.  Properties C09 (lazy loading is invisible) and C10  *)
(* (private tables are isolated).                                          *)
(*                                                                         *)
(* State (one record `st`, passed functionally so that "what would a read  *)
(* return, including the loading it triggers" is an operator):             *)
(*   cls  : class-level slot kind per (class, registered property)         *)
(*          abs | pend (delayed_load property) | defN (plain default that  *)
(*          is a missing-data placeholder) | defU (plain default that is   *)
(*          data, e.g. the units string) | real (ordinary property)        *)
(*   inst : set of <<table, atom, prop>> present in an instance __dict__   *)
(*   asg  : subset of inst written by an Assign event (user override)      *)
(*   tp   : table.properties guard per table                               *)
(*   tabs : private tables created so far                                  *)
(*   mut  : heap objects changed in place by Mutate events                 *)
(*                                                                         *)
(* Python attribute resolution order modelled by Read: data descriptor on  *)
(* the class (pend/real) -> instance dict -> plain class attribute ->      *)
(* __getattr__ delegation (Isotope -> Element, Ion -> its base) -> error.  *)
(* Representative atoms: e0 = table[0]; eD / eN element with / without     *)
(* table entries; iD / iN isotope with / without; ionD ion of eD; iion ion *)
(* of iD.                                                                  *)
(*                                                                         *)
(* FixSetter / FixNsfPriv / FixCSCopy / FixSpin (and the unused FixEmis)   *)
(* are the behaviours of the                                               *)
(* `fix:` commits in /repo (TRUE = the repaired code); with all FALSE the  *)
(* module describes the pinned upstream commit.                            *)
(***************************************************************************)
EXTENDS Naturals, Sequences, FiniteSets, TLC

CONSTANTS Groups,        \* groups explored in this run, subset of AllGroups
          PrivTables,    \* names of private tables that may be created
          MaxAsg, MaxMut, \* bounds on the number of user overrides / in-place mutations in one history
          FixSetter, FixEmis, FixNsfPriv, FixCSCopy, FixSpin

AllGroups == {"cov", "cryst", "neut", "act", "xray", "emis", "mag"}
Tables == {"pub"} \cup PrivTables
Classes == {"El", "Iso", "Ion"}
Rng(s) == {s[i] : i \in DOMAIN s}
PropsOf(g) == CASE g = "cov" -> <<"cr", "cru", "crunc">>   [] g = "cryst" -> <<"cs">>
                [] g = "neut" -> <<"nt">>  [] g = "act" -> <<"na">>  [] g = "xray" -> <<"xr">>
                [] g = "emis" -> <<"ka", "kb", "kau", "kbu">>      [] g = "mag" -> <<"mf">>
                [] g = "spin" -> <<"ns">>          \* (FixSpin) second registration served by the neutron loader
RegOn(g) == CASE g = "neut" -> <<"El", "Iso">> [] g = "act" -> <<"Iso">> [] g = "spin" -> <<"Iso">>
              [] g = "xray" -> <<"El", "Ion">> [] OTHER -> <<"El">>
RegProps == {"cr", "cru", "crunc", "cs", "nt", "na", "xr", "ka", "kb", "kau", "kbu", "mf", "ns"}
Props == RegProps                        \* ns = nuclear_spin: written by the neutron loader; registered only with FixSpin
RegGroupOf(p) == IF p = "ns" THEN "spin" ELSE CHOOSE g \in AllGroups : p \in Rng(PropsOf(g))   \* whose props clearprops() deletes
LoaderOf(rg) == IF rg = "spin" THEN "neut" ELSE rg                                           \* which init() the loader runs
GroupOf(p) == IF p = "ns" THEN "neut" ELSE CHOOSE g \in AllGroups : p \in Rng(PropsOf(g))
ReadProps(g) == Rng(PropsOf(g)) \cup (IF g = "neut" THEN {"ns"} ELSE {})
Atoms == {"e0", "eD", "eN", "iD", "iN", "ionD", "iion"}
ClassOf(a) == CASE a \in {"e0", "eD", "eN"} -> "El" [] a \in {"iD", "iN"} -> "Iso" [] OTHER -> "Ion"
ParentOf(a) == CASE a = "iD" -> "eD" [] a = "iN" -> "eD" [] a = "ionD" -> "eD" [] a = "iion" -> "iD" [] OTHER -> "none"
Mutable == {"cs", "nt", "mf", "na", "xr"}

Slot(st, c, p) == IF p \in RegProps THEN st.cls[<<c, p>>] ELSE "abs"
SetSlot(st, c, p, k) == [st EXCEPT !.cls[<<c, p>>] = k]
\* heap object served by an instance attribute / class default
\* Co has a single row (Co-59) in the neutron table: the loader hands the isotope's record to the element
\* ("if element.neutron is missing: element.neutron = nsf"), so within one table eD and iD serve the same Neutron
\* object -- until the table's neutron data are loaded a second time (reload=True): the isotope gets a new record,
\* the element is no longer "missing" and keeps the old one (st.det = tables where that has happened).
ObjOfInst(st, T, a, p) == IF p = "cs" /\ ~FixCSCopy THEN <<"cs", "shared", a>>
                          ELSE IF p = "nt" /\ a = "eD" /\ T \notin st.det THEN <<p, T, "iD">> ELSE <<p, T, a>>
\* an instance attribute is (re)bound: the loader builds a new object for it, so in-place changes of the object bound
\* before (by an earlier load or an assignment) are not in it -- unless the loader hands out one shared object
SetInst(st, T, a, p) ==
  LET detach == p = "nt" /\ a = "iD" /\ T \notin st.det /\ <<T, "iD", "nt">> \in st.inst /\ <<T, "eD", "nt">> \in st.inst
      gone == {<<"assigned", T, a, p>>} \cup (IF p = "cs" /\ ~FixCSCopy THEN {} ELSE {ObjOfInst(st, T, a, p)})
  IN [st EXCEPT !.inst = @ \cup {<<T, a, p>>}, !.asg = @ \ {<<T, a, p>>},
                !.det = IF detach THEN @ \cup {T} ELSE @,
                !.mut = IF detach                        \* the old record, with whatever was done to it, stays with the element
                        THEN {IF m[1] = <<"nt", T, "iD">> THEN <<(<<"nt", T, "eD">>), m[2]>> ELSE m : m \in {x \in @ : x[1] # <<"assigned", T, a, p>>}}
                        ELSE {m \in @ : m[1] \notin gone}]
HasInst(st, T, a, p) == <<T, a, p>> \in st.inst

PairsOf(g) == LET cs == RegOn(g) ps == PropsOf(g)
              IN [k \in 1..(Len(cs) * Len(ps)) |-> <<cs[((k - 1) \div Len(ps)) + 1], ps[((k - 1) % Len(ps)) + 1]>>]
RECURSIVE ClearFrom(_, _, _)
ClearFrom(st, pairs, i) ==                              \* clearprops(): delattr in order; fails on an absent slot
  IF i > Len(pairs) THEN [st |-> st, err |-> FALSE]
  ELSE IF Slot(st, pairs[i][1], pairs[i][2]) = "abs" THEN [st |-> st, err |-> TRUE]
  ELSE ClearFrom(SetSlot(st, pairs[i][1], pairs[i][2], "abs"), pairs, i + 1)
ClearProps(st, g) == ClearFrom(st, PairsOf(g), 1)

Guarded(g) == g # "emis"                                \* init_spectral_lines has no table.properties guard

\* loader bodies as step lists, in the order of the statements of the code.
\*   <<"set", atom, prop>>        per-atom attribute write (may fire the delayed-load setter)
\*   <<"cls", class, prop, kind>> class-level assignment (never fires anything)
\*   <<"setifmissing", a, p>>     write only when the atom still serves the class-level placeholder
\*   <<"probe", atom, prop>>      hasattr() (may fire the delayed-load getter, loading the PUBLIC table)
\*   <<"pubfirst">>               (FixNsfPriv) make sure the public table is loaded before touching class defaults
InitSteps(g) ==
  CASE g = "cov"   -> << <<"set", "e0", "cr">>, <<"cls", "El", "cru", "defU">>, <<"cls", "El", "cr", "defN">>,
                         <<"cls", "El", "crunc", "defN">>, <<"set", "eD", "cr">>, <<"set", "eD", "crunc">> >>
    [] g = "cryst" -> << <<"set", "e0", "cs">>, <<"set", "eD", "cs">> >>
    [] g = "neut"  -> (IF FixNsfPriv THEN << <<"pubfirst">> >> ELSE << >>) \o
                      << <<"cls", "Iso", "nt", "defN">>, <<"cls", "El", "nt", "defN">>, <<"set", "e0", "nt">>,
                         <<"set", "iD", "nt">>, <<"set", "iD", "ns">>, <<"setifmissing", "eD", "nt">> >>
    [] g = "act"   -> << <<"probe", "iD", "na">>, <<"probe", "iN", "na">>, <<"set", "iD", "na">> >>
    [] g = "xray"  -> << <<"cls", "El", "xr", "real">>, <<"cls", "Ion", "xr", "real">> >>
    [] g = "emis"  -> IF FixEmis
                      THEN << <<"set", "eD", "ka">>, <<"set", "eD", "kb">>,
                              <<"cls", "El", "kau", "defU">>, <<"cls", "El", "kbu", "defU">> >>
                      ELSE << <<"cls", "El", "kau", "defU">>, <<"cls", "El", "kbu", "defU">>,
                              <<"set", "eD", "ka">>, <<"set", "eD", "kb">> >>
    [] g = "mag"   -> << <<"probe", "eD", "mf">>, <<"set", "eD", "mf">> >>

RECURSIVE Read(_, _, _, _), InitG(_, _, _), SetAttr(_, _, _, _), Steps(_, _, _)
Steps(st, T, steps) ==                                   \* a loader body, aborting on the first error
  IF steps = <<>> THEN [st |-> st, err |-> FALSE]
  ELSE LET s == Head(steps)
           r == CASE s[1] = "set"   -> SetAttr(st, T, s[2], s[3])
                  [] s[1] = "cls"   ->        \* a class-level default is a fresh object: earlier in-place changes are gone
                       [st |-> [SetSlot(st, s[2], s[3], s[4]) EXCEPT !.mut = {m \in @ : m[1] # <<"classdefault", s[3]>>}],
                        err |-> FALSE]
                  [] s[1] = "setifmissing" ->   \* "if element.neutron is missing: element.neutron = nsf" (sole-isotope elements)
                       IF HasInst(st, T, s[2], s[3]) THEN [st |-> st, err |-> FALSE] ELSE SetAttr(st, T, s[2], s[3])
                  [] s[1] = "probe" -> [st |-> Read(st, T, s[2], s[3]).st, err |-> FALSE]
                  [] s[1] = "pubfirst" -> IF T = "pub" THEN [st |-> st, err |-> FALSE] ELSE InitG(st, "neut", "pub")
       IN IF r.err THEN r ELSE Steps(r.st, T, Tail(steps))

SetAttr(st, T, a, p) ==
  LET k == Slot(st, ClassOf(a), p)
  IN IF k = "pend"                                       \* delayed_load setter: clearprops(); setattr()
     THEN LET r == ClearProps(st, RegGroupOf(p))
          IN IF r.err THEN r
             ELSE IF FixSetter                           \* repaired setter: clearprops(); loader(); setattr()
                  THEN LET r2 == InitG(r.st, LoaderOf(RegGroupOf(p)), "pub")
                       IN IF r2.err THEN r2 ELSE [st |-> SetInst(r2.st, T, a, p), err |-> FALSE]
                  ELSE [st |-> SetInst(r.st, T, a, p), err |-> FALSE]
     ELSE IF k = "real" THEN [st |-> st, err |-> TRUE]   \* property without setter
     ELSE [st |-> SetInst(st, T, a, p), err |-> FALSE]

InitG(st, g, T) ==
  IF Guarded(g) /\ g \in st.tp[T] THEN [st |-> st, err |-> FALSE]
  ELSE Steps([st EXCEPT !.tp[T] = IF Guarded(g) THEN @ \cup {g} ELSE @], T, InitSteps(g))

\* X.init(table, reload=True): the guard is ignored and the loader body runs again
Reload(st, g, T) == InitG([st EXCEPT !.tp[T] = @ \ {g}], g, T)

Mutated(st, o) == \E m \in st.mut : m[1] = o
MutBy(st, o) == {m[2] : m \in {x \in st.mut : x[1] = o}}
NoneData == {<<"e0", "cs">>}                  \* table entries whose value is None (the neutron has no crystal structure)
InstObj(st, T, a, p) == IF <<T, a, p>> \in st.asg THEN <<"assigned", T, a, p>> ELSE ObjOfInst(st, T, a, p)
ValOfInst(st, T, a, p) == IF p \in Mutable /\ Mutated(st, InstObj(st, T, a, p)) THEN "M"
                          ELSE IF <<T, a, p>> \in st.asg THEN "A"
                          ELSE IF <<a, p>> \in NoneData THEN "P" ELSE "D"

Read(st, T, a, p) ==                                     \* getattr(atom, p) with every side effect
  LET k == Slot(st, ClassOf(a), p)
  IN IF k = "pend"                                       \* delayed_load getter: clearprops(); loader(); getattr()
     THEN LET r == ClearProps(st, RegGroupOf(p))
          IN IF r.err THEN [st |-> r.st, val |-> "E", obj |-> <<>>]
             ELSE LET r2 == InitG(r.st, LoaderOf(RegGroupOf(p)), "pub")
                  IN IF r2.err THEN [st |-> r2.st, val |-> "X", obj |-> <<>>] ELSE Read(r2.st, T, a, p)
     ELSE IF k = "real" THEN [st |-> st, obj |-> <<p, T, a>>,
                              val |-> IF Mutated(st, <<p, T, a>>) THEN "M" ELSE "D"]
     ELSE IF HasInst(st, T, a, p) THEN [st |-> st, val |-> ValOfInst(st, T, a, p), obj |-> InstObj(st, T, a, p)]
     ELSE IF k = "defN" THEN [st |-> st, obj |-> <<"classdefault", p>>,
                              val |-> IF Mutated(st, <<"classdefault", p>>) THEN "M" ELSE "P"]
     ELSE IF k = "defU" THEN [st |-> st, val |-> "D", obj |-> <<>>]
     ELSE IF ParentOf(a) # "none" THEN Read(st, T, ParentOf(a), p)      \* __getattr__ delegation
     ELSE [st |-> st, val |-> "E", obj |-> <<>>]                        \* AttributeError

St0 == [cls |-> [cp \in Classes \X RegProps |->
                   IF cp[2] = "ns" THEN (IF FixSpin /\ cp[1] = "Iso" THEN "pend" ELSE "abs")
                   ELSE IF cp[1] \in Rng(RegOn(GroupOf(cp[2]))) THEN "pend" ELSE "abs"],
        inst |-> {}, asg |-> {}, tp |-> [T \in Tables |-> {}], tabs |-> {}, mut |-> {}, det |-> {}]

\* ---- the canonical order (C09's oracle inside the model) ------------------
CanonOrder == <<"cov", "cryst", "neut", "act", "xray", "emis", "mag">>
CanonAtom(g) == IF g = "act" THEN "iD" ELSE "eD"
RECURSIVE Canonical(_, _)
Canonical(st, gs) == IF gs = <<>> THEN st
                     ELSE Canonical(Read(st, "pub", CanonAtom(Head(gs)), PropsOf(Head(gs))[1]).st, Tail(gs))
CanonState == Canonical(St0, CanonOrder)
Canon(a, p) == Read(CanonState, "pub", a, p).val

\* ---- events ----------------------------------------------------------------
Create(st, T) == [st EXCEPT !.tabs = @ \cup {T}]
Assign(st, T, a, p) == LET r == SetAttr(st, T, a, p)
                       IN IF r.err THEN r.st
                          ELSE [r.st EXCEPT !.asg = @ \cup {<<T, a, p>>},          \* a fresh marker object
                                            !.mut = {m \in @ : m[1] # <<"assigned", T, a, p>>}]
Mutate(st, T, a, p) == LET r == Read(st, T, a, p)        \* read the value, then change it in place
                       IN IF r.val \in {"E", "X"} \/ r.obj = <<>> THEN r.st
                          ELSE [r.st EXCEPT !.mut = @ \cup {<<r.obj, T>>}]
ImportM(st, m) == IF m = "fasta" /\ "neut" \in Groups THEN Read(st, "pub", "eD", "nt").st ELSE st
CalcProps(c) == CASE c = "neutron_sld" -> <<"nt">> [] c = "atom_sld" -> <<"nt">> [] c = "xray_sld" -> <<"xr">>
                  [] c = "f0" -> <<"xr">> [] c = "volume" -> <<"cr">> [] c = "activation" -> <<"na">> [] c = "activation_iaea" -> <<"na">>
                  [] c = "d2o_match" -> <<"nt">> [] c = "list" -> <<"ka", "cr">> [] c = "composite" -> <<"nt">>
                  [] c = "magff" -> <<"mf">> [] c = "emission_table" -> <<"ka">>
RECURSIVE ReadAll(_, _, _)
ReadAll(st, a, ps) == IF ps = <<>> THEN st ELSE ReadAll(Read(st, "pub", a, Head(ps)).st, a, Tail(ps))
Calc(st, c) == ReadAll(st, IF c \in {"activation", "activation_iaea"} THEN "iD" ELSE "eD", CalcProps(c))
CalcOK(c) == \A i \in DOMAIN CalcProps(c) : GroupOf(CalcProps(c)[i]) \in Groups

Apply(st, ev) ==
  CASE ev.op = "read"   -> Read(st, ev.T, ev.a, ev.p).st
    [] ev.op = "probe"  -> Read(st, ev.T, ev.a, ev.p).st
    [] ev.op = "init"   -> InitG(st, ev.g, ev.T).st
    [] ev.op = "reload" -> Reload(st, ev.g, ev.T).st
    [] ev.op = "create" -> Create(st, ev.T)
    [] ev.op = "assign" -> Assign(st, ev.T, ev.a, ev.p)
    [] ev.op = "mutate" -> Mutate(st, ev.T, ev.a, ev.p)
    [] ev.op = "import" -> ImportM(st, ev.m)
    [] ev.op = "calc"   -> Calc(st, ev.c)
    [] ev.op \in {"parse", "pickle", "tcalc"} -> st \* parsing with table=T / pickling an atom touch no lazy property; tcalc: calculators
                                                     \* with table=T, used by the harness only after T's groups were initialised

\* predicted outcome class of an event (what the harness logs as out.cls)
Outcome(st, ev) ==
  CASE ev.op = "read"   -> Read(st, ev.T, ev.a, ev.p).val
    [] ev.op = "probe"  -> (IF Read(st, ev.T, ev.a, ev.p).val \in {"E"} THEN "F" ELSE "T")
    [] ev.op = "init"   -> (IF InitG(st, ev.g, ev.T).err THEN "X" ELSE "ok")
    [] ev.op = "reload" -> (IF Reload(st, ev.g, ev.T).err THEN "X" ELSE "ok")
    [] OTHER -> "ok"

ActiveProps == UNION {ReadProps(g) : g \in Groups}
AssignProps == ActiveProps \ {"xr", "na", "mf"}          \* user overrides of scalar / record data
MutProps == ActiveProps \cap Mutable
Live(st) == {"pub"} \cup st.tabs
Calcs == {"neutron_sld", "atom_sld", "xray_sld", "f0", "volume", "activation", "activation_iaea", "d2o_match", "list",
          "composite", "magff", "emission_table"}
Imports == {"nsf", "xsf", "covalent_radius", "crystal_structure", "magnetic_ff", "activation", "fasta",
            "formulas", "cromermann"}
ImportRelevant(m) == CASE m = "nsf" -> "neut" \in Groups [] m = "fasta" -> "neut" \in Groups
                       [] m = "xsf" -> {"xray", "emis"} \cap Groups # {} [] m = "cromermann" -> "xray" \in Groups
                       [] m = "covalent_radius" -> "cov" \in Groups [] m = "crystal_structure" -> "cryst" \in Groups
                       [] m = "magnetic_ff" -> "mag" \in Groups [] m = "activation" -> "act" \in Groups
                       [] OTHER -> FALSE
Events(st) ==
       {[op |-> "read", T |-> T, a |-> a, p |-> p] : T \in Live(st), a \in Atoms, p \in ActiveProps}
  \cup {[op |-> "probe", T |-> "pub", a |-> a, p |-> p] : a \in {"eD", "eN", "iN", "iion"}, p \in ActiveProps}
  \cup {[op |-> "calc", c |-> c] : c \in {x \in Calcs : CalcOK(x)}}
  \cup {[op |-> "import", m |-> m] : m \in {x \in Imports : ImportRelevant(x)}}
  \cup {[op |-> "init", g |-> g, T |-> T] : g \in Groups, T \in Live(st)}
  \cup {[op |-> "reload", g |-> g, T |-> T] : g \in Groups, T \in Live(st)}   \* the documented way to restore a table's data
  \cup {[op |-> "create", T |-> T] : T \in PrivTables \ st.tabs}
  \cup (IF Cardinality(st.asg) >= MaxAsg THEN {} ELSE
        {[op |-> "assign", T |-> T, a |-> a, p |-> p] : T \in st.tabs, a \in {"eD", "eN", "iD"}, p \in AssignProps})
  \cup (IF Cardinality(st.mut) >= MaxMut THEN {} ELSE
        {[op |-> "mutate", T |-> T, a |-> a, p |-> p] : T \in st.tabs, a \in {"eD", "iN", "iD"}, p \in MutProps})

VARIABLE st
Init == st = St0
Next == \E ev \in Events(st) : st' = Apply(st, ev)
Spec == Init /\ [][Next]_st

\* ---- requirement level (PTServe): what C09 / C10 demand ---------------------
\* value a table must serve for (T, a, p): the canonical value, overlaid with T's own assignments / mutations
ForeignMut(s, T, a, p) == LET o == Read(s, T, a, p).obj IN o # <<>> /\ (MutBy(s, o) \ {T}) # {}
Served(s, T, a, p) == Read(s, T, a, p).val
ServedIsCanonical == \A a \in Atoms, p \in ActiveProps : Served(st, "pub", a, p) = Canon(a, p)
PrivInitialised(s, T, p) == GroupOf(p) \in s.tp[T] \/ GroupOf(p) = "xray"
FreshPrivateEqualsPublic ==
  \A T \in st.tabs, a \in Atoms, p \in ActiveProps :
     (PrivInitialised(st, T, p) /\ Served(st, T, a, p) \notin {"A", "M"}) => Served(st, T, a, p) = Canon(a, p)
NoSharedMutable == \A T \in Live(st), a \in Atoms, p \in ActiveProps : ~ForeignMut(st, T, a, p)

BadCells(s) == {<<a, p>> \in Atoms \X ActiveProps : Served(s, "pub", a, p) # Canon(a, p)}
=============================================================================
