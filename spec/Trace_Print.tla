----------------------------- MODULE Trace_Print -----------------------------
(***************************************************************************)
(* Trace validation for C13.  Line 1: {symz: symbol -> Z}.  Each further   *)
(* line is one formula built in the real code:                             *)
(*   orig    its structure (nested items with Dec counts)                  *)
(*   chars   the code points of str(formula); PTLex cuts them into tokens  *)
(*   back    structure of formula(str(formula)), or exc                    *)
(*   reprok  repr(f) = "formula('" + str(f) + "')"                         *)
(*   nameok  a named copy prints its name (and repr shows it)              *)
(* Clauses: PrintedIsInGrammar, PrintedDenotesOriginal (the spec's own     *)
(* reading of the printed string equals the original up to 6 digits),      *)
(* ReparseGivesOriginal (the code's reading of it does), ReprForm, NameForm*)
(***************************************************************************)
EXTENDS Json, IOUtils, TLCExt, Sequences, Integers, TLC, Dec
Log == ndJsonDeserialize(IOEnv.TRACE_FILE)
P == INSTANCE PTParse WITH SymZ <- Log[1].symz
L == INSTANCE PTLex
VARIABLE l
Clause(e) ==
  LET r == P!ParseAll(L!Lex(e.chars))
  IN IF ~r.ok THEN "PrintedIsInGrammar"
     ELSE IF ~P!SameFormula6(e.orig, r.items) THEN "PrintedDenotesOriginal"
     ELSE IF "exc" \in DOMAIN e.back THEN "ReparseGivesOriginal"
     ELSE IF ~P!SameFormula6(e.orig, e.back.items) THEN "ReparseGivesOriginal"
     ELSE IF ~e.reprok THEN "ReprForm"
     ELSE IF ~e.nameok THEN "NameForm"
     ELSE "ok"
Init == l = 2
Next == /\ l <= Len(Log)
        /\ LET c == Clause(Log[l]) IN (c # "ok" => PrintT("@@" \o ToJson([i |-> l, clause |-> c, id |-> Log[l].id])))
        /\ l' = l + 1
TraceSpec == Init /\ [][Next]_l
Done == TLCGet("stats").diameter = Len(Log) /\ PrintT("@@" \o ToJson([summary |-> TRUE, events |-> Len(Log) - 1]))
=============================================================================
