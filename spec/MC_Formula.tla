----------------------------- MODULE MC_Formula -----------------------------
EXTENDS PTFormula, Json
\* maximal histories are printed (their prefixes are replayed as prefixes)
Emit == (Len(hist) = MaxDepth) => PrintT("@@" \o ToJson([hist |-> hist]))
=============================================================================
