----------------------------- MODULE MC_Grammar -----------------------------
(* Generator wrapper: every complete derivation is printed with its denotation
   (one implementation test per reachable state), together with its one-step
   malformations for small formulas. *)
EXTENDS PTGrammar, Json
\* token-level malformations of a complete, density-free token string (each result is outside the grammar:
\* see the comments in DESIGN.md section 5 C01)
FirstCountPos(toks) == LET S == {i \in DOMAIN toks : toks[i] \in (DOMAIN CountVal) \ {""} /\ i > 1 /\ SubSeq(toks[i - 1], 1, 1) = "$"}
                       IN IF S = {} THEN 0 ELSE CHOOSE i \in S : \A j \in S : i <= j
FirstAtomPos(toks) == CHOOSE i \in DOMAIN toks : SubSeq(toks[i], 1, 1) = "$" /\ \A j \in 1..(i - 1) : SubSeq(toks[j], 1, 1) # "$"
ReplaceAt(toks, i, t) == [toks EXCEPT ![i] = t]
Malformed(toks) ==
  LET p == FirstCountPos(toks)
  IN {[kind |-> "unbalanced-open", toks |-> <<"(">> \o toks],
      [kind |-> "unbalanced-close", toks |-> toks \o <<")">>],
      [kind |-> "unbalanced-close-count", toks |-> toks \o <<")", "2">>],
      [kind |-> "density-without-count", toks |-> toks \o <<"@">>],
      [kind |-> "density-without-count-n", toks |-> toks \o <<"@n">>],
      [kind |-> "density-double-at", toks |-> toks \o <<"@@1">>],
      [kind |-> "density-junk", toks |-> toks \o <<"@1x">>],
      [kind |-> "density-two-dots", toks |-> toks \o <<"@1.2.3">>],
      [kind |-> "density-first", toks |-> <<"@1 ">> \o toks],
      [kind |-> "trailing-plus-count", toks |-> toks \o <<"+", "2">>],
      [kind |-> "trailing-plus", toks |-> toks \o <<"+">>],
      [kind |-> "leading-plus", toks |-> <<"+">> \o toks],
      [kind |-> "unknown-symbol", toks |-> ReplaceAt(toks, FirstAtomPos(toks), "Xx")],
      [kind |-> "lowercase-symbol", toks |-> ReplaceAt(toks, FirstAtomPos(toks), "q")],
      [kind |-> "bad-bracket", toks |-> toks \o <<"]">>],
      [kind |-> "bad-brace", toks |-> toks \o <<"}">>]}
     \cup (IF p = 0 THEN {} ELSE
          {[kind |-> "count-zero", toks |-> ReplaceAt(toks, p, "0")],
           [kind |-> "count-leading-zero", toks |-> ReplaceAt(toks, p, "02")],
           [kind |-> "count-exponent", toks |-> ReplaceAt(toks, p, "1e3")],
           [kind |-> "count-negative", toks |-> ReplaceAt(toks, p, "-2")],
           [kind |-> "count-comma", toks |-> ReplaceAt(toks, p, "1,5")]})
Emit == Complete =>
          PrintT("@@" \o ToJson([toks |-> Tokens, nat |-> Cardinality(UsedAtoms),
                                 bag |-> [a \in 1..Cardinality(UsedAtoms) |-> <<Bag[a].n, Bag[a].e>>],
                                 dens |-> dens,
                                 mal |-> IF dens = "" /\ TotalEls <= 2 /\ Len(stk[1].items) = 1 THEN Malformed(Tokens) ELSE {}]))
=============================================================================
