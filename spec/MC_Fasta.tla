------------------------------ MODULE MC_Fasta ------------------------------
EXTENDS PTFasta, Json
MCLines == { [hdr |-> TRUE,  text |-> ">sp|P1|first protein", stripped |-> ">sp|P1|first protein"],
             [hdr |-> TRUE,  text |-> ">",                    stripped |-> ">"],
             [hdr |-> TRUE,  text |-> ">P2 variant A->V >x ",  stripped |-> ">P2 variant A->V >x"],     \* '>' inside a header is text
             [hdr |-> TRUE,  text |-> ">P3 page<FF>break",     stripped |-> ">P3 page<FF>break"],      \* <FF>: the harness writes a form feed / file separator / NEL / U+2028 here
             [hdr |-> FALSE, text |-> "MKV*",                 stripped |-> "MKV*"],                   \* a line ending in '*' stays as written
             [hdr |-> FALSE, text |-> " >indented",           stripped |-> " >indented"],             \* only a leading '>' starts a record
             [hdr |-> FALSE, text |-> "MKV LA",               stripped |-> "MKV LA"],
             [hdr |-> FALSE, text |-> "GGX*AA  ",             stripped |-> "GGX*AA"],
             [hdr |-> FALSE, text |-> "",                     stripped |-> ""] }
EmitFile == done => PrintT("@@" \o ToJson([lines |-> [i \in DOMAIN file |-> file[i].text], records |-> out]))
=============================================================================
