----------------------------- MODULE MC_CoreSim -----------------------------
(* MC_Core with a history variable: run with TLC -simulate; every behaviour of MaxLen calls is printed
   (call, outcome and the heap after it) and replayed in the real code by the C08 driver. *)
EXTENDS MC_Core, Json
CONSTANTS MaxLen, EmitOneIn        \* every sibling of the last step would be printed: print one in EmitOneIn
VARIABLE hist
SInit == Init /\ hist = <<[act |-> act, last |-> last, heap |-> heap]>>
\* (TLC -simulate picks uniformly among successor states, and most successors are failing lookups: keep one in five)
SNext == /\ Len(hist) <= MaxLen
         /\ Next
         /\ (last' = "raise" => RandomElement(1..5) = 1)
         /\ (act'.op \in {"LookupBase", "Restore", "AddIsotope"} /\ last' = "found" => RandomElement(1..3) = 1)
         /\ hist' = Append(hist, [act |-> act', last |-> last', heap |-> heap'])
SSpec == SInit /\ [][SNext]_<<vars, hist>>
EmitHist == (Len(hist) = MaxLen + 1 /\ RandomElement(1..EmitOneIn) = 1) => PrintT("@@" \o ToJson([hist |-> hist]))
=============================================================================
