------------------------------- MODULE PTFasta -------------------------------
(***************************************************************************)
(* The FASTA text reader of C18 as a line-by-line state machine.           *)
(* State: the lines still to read, the current record (header, sequence    *)
(* accumulated so far) and the records emitted.  Actions: Header (a line   *)
(* starting with '>': emit the current record if any, start a new one),    *)
(* SeqLine (append the line, trailing white space stripped), End (emit the *)
(* last record).  Lines before the first header belong to no record.       *)
(* TLC explores every file of up to MaxLines lines over a small alphabet   *)
(* of line kinds and checks OneRecordPerHeader and ConcatInOrder; every    *)
(* explored file is also read by the real read_fasta (MC_Fasta prints the  *)
(* files and the records the machine produced).                            *)
(***************************************************************************)
EXTENDS Integers, Sequences, TLC
CONSTANTS LineKinds, MaxLines
\* a line kind is a record [hdr : BOOLEAN, text : STRING, stripped : STRING]
VARIABLES file,     \* the whole file (chosen nondeterministically, one line at a time)
          pos,      \* number of lines consumed
          cur,      \* [name, acc] or none
          out,      \* records emitted so far
          done
rvars == <<file, pos, cur, out, done>>
NoRec == [name |-> "", acc |-> <<>>, live |-> FALSE]
RInit == file = <<>> /\ pos = 0 /\ cur = NoRec /\ out = <<>> /\ done = FALSE
Emit(o, c) == IF c.live THEN Append(o, [name |-> c.name, seq |-> c.acc]) ELSE o
\* the writer appends a line, the reader consumes it at once (the reader is a generator over the file object)
ReadLine(k) ==
  /\ ~done /\ Len(file) < MaxLines
  /\ file' = Append(file, k) /\ pos' = pos + 1
  /\ IF k.hdr THEN /\ out' = Emit(out, cur)
                   /\ cur' = [name |-> k.stripped, acc |-> <<>>, live |-> TRUE]
     ELSE /\ cur' = [cur EXCEPT !.acc = Append(@, k.stripped)]         \* kept even before the first header, dropped at the header
          /\ out' = out
  /\ UNCHANGED done
End == /\ ~done /\ done' = TRUE /\ out' = Emit(out, cur) /\ UNCHANGED <<file, pos, cur>>
RNext == (\E k \in LineKinds : ReadLine(k)) \/ End
RSpec == RInit /\ [][RNext]_rvars
\* ---- properties -----------------------------------------------------------------
Headers(f) == SelectSeq(f, LAMBDA k : k.hdr)
OneRecordPerHeader == done => Len(out) = Len(Headers(file))
NamesInOrder == done => \A i \in 1..Len(out) : out[i].name = Headers(file)[i].stripped
\* the lines between the i-th header and the next one (or the end), in order
RECURSIVE After(_, _, _)
After(f, i, n) ==       \* sequence lines following the n-th header, starting the scan at position i
  IF i > Len(f) THEN <<>>
  ELSE IF f[i].hdr THEN (IF n = 0 THEN <<>> ELSE After(f, i + 1, n - 1))
  ELSE (IF n = 0 THEN <<f[i].stripped>> ELSE <<>>) \o After(f, i + 1, n)
RECURSIVE HeaderPos(_, _, _)
HeaderPos(f, i, n) == IF f[i].hdr THEN (IF n = 1 THEN i ELSE HeaderPos(f, i + 1, n - 1)) ELSE HeaderPos(f, i + 1, n)
ConcatInOrder == done => \A n \in 1..Len(out) : out[n].seq = After(file, HeaderPos(file, 1, n) + 1, 0)
=============================================================================
