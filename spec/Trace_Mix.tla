------------------------------- MODULE Trace_Mix -------------------------------
(***************************************************************************)
(* C11 (mixtures) and C12 (density, natural density, substitution, volume) *)
(* as trace validation over exact decimals.                                *)
(*  mix     a mixture by weight or volume: components (atoms, mass,        *)
(*          density or unknown), quantities, result atoms and density      *)
(*  natd    density / natural density of a formula, however it was given   *)
(*  subst   replace(source, target, portion)                               *)
(*  vol     volume from covalent radii and packing factor / lattice        *)
(***************************************************************************)
EXTENDS PTReaders, Json, IOUtils, TLCExt, TLC, FiniteSets
Log == ndJsonDeserialize(IOEnv.TRACE_FILE)
Hdr == Log[1]
VARIABLE l
P14 == 8
Num(x) == x.k = "num"
\* ---- unit tables of the mixture grammar -----------------------------------------------------
MassUnit(u) == CASE u = "kg" -> Sci(1, 3) [] u = "g" -> One [] u = "mg" -> Sci(1, -3) [] u = "ug" -> Sci(1, -6) [] u = "ng" -> Sci(1, -9)
VolUnit(u)  == CASE u = "L" -> One [] u = "mL" -> Sci(1, -3) [] u = "uL" -> Sci(1, -6) [] u = "nL" -> Sci(1, -9)
LenUnit(u)  == CASE u = "cm" -> Sci(1, -2) [] u = "mm" -> Sci(1, -3) [] u = "um" -> Sci(1, -6) [] u = "nm" -> Sci(1, -9)
IsMass(u) == u \in {"kg", "g", "mg", "ug", "ng"}
IsVol(u) == u \in {"L", "mL", "uL", "nL"}
IsLen(u) == u \in {"cm", "mm", "um", "nm"}
\* ---- bags: sequences of [key (<<z,a,q>>), n] ---------------------------------------------------
Keys(b) == {b[i].key : i \in DOMAIN b}
RECURSIVE CountOf(_, _)
CountOf(b, k) == IF b = <<>> THEN Zero ELSE Add(IF Head(b).key = k THEN Head(b).n ELSE Zero, CountOf(Tail(b), k))
\* ---- mixtures (C11) ---------------------------------------------------------------------------------
\* moles of component i per unit: weight q_i / M_i ; volume q_i rho_i / M_i
Moles(c, mode) == IF mode = "weight" THEN Div(c.q, c.mass, P14) ELSE Div(MulP(c.q, c.rho.v, P14), c.mass, P14)
Live(cs) == SelectSeq(cs, LAMBDA c : c.q.s > 0)                       \* components with zero quantity vanish
RECURSIVE Want(_, _, _)
Want(cs, mode, k) == IF cs = <<>> THEN Zero ELSE Add(MulP(Moles(Head(cs), mode), CountOf(Head(cs).atoms, k), P14), Want(Tail(cs), mode, k))
AllKeys(cs) == UNION {Keys(cs[i].atoms) : i \in DOMAIN cs}
RECURSIVE SumQ(_), SumQRho(_), SumQOverRho(_)
SumQ(cs) == IF cs = <<>> THEN Zero ELSE Add(Head(cs).q, SumQ(Tail(cs)))
SumQRho(cs) == IF cs = <<>> THEN Zero ELSE Add(MulP(Head(cs).q, Head(cs).rho.v, P14), SumQRho(Tail(cs)))
SumQOverRho(cs) == IF cs = <<>> THEN Zero ELSE Add(Div(Head(cs).q, Head(cs).rho.v, P14), SumQOverRho(Tail(cs)))
AllDens(cs) == \A i \in DOMAIN cs : Num(cs[i].rho) /\ cs[i].rho.v.s > 0
\* a density tag on a parenthesised group: "@d" / "@di" is the density, "@dn" the density at natural abundance
\* (density * natural mass = tag * actual mass)
TagOK(p) == "tag" \notin DOMAIN p
            \/ (Num(p.rho) /\ Close(MulP(p.rho.v, IF p.tag.k = "n" THEN p.massnat ELSE p.mass, P14), MulP(p.tag.v, p.mass, P14), -11))
MixClauseT(e, ptol) ==
  LET cs == Live(e.comps)
      mode == e.mode
      ks == AllKeys(cs)
      dens == mode = "weight" \/ AllDens(cs)
      mol == [i \in DOMAIN cs |-> IF dens THEN Moles(cs[i], mode) ELSE Zero]            \* computed once per component
      want == [k \in ks |-> LET RECURSIVE W(_)
                                W(i) == IF i > Len(cs) THEN Zero ELSE Add(MulP(mol[i], CountOf(cs[i].atoms, k), P14), W(i + 1))
                            IN W(1)]
  IN IF mode = "volume" /\ ~AllDens(cs) THEN (IF "exc" \in DOMAIN e.result THEN "ok" ELSE "VolumeMixNeedsDensities")
     ELSE IF "exc" \in DOMAIN e.result THEN "MixtureComputes"
     ELSE IF cs = <<>> THEN (IF e.result.atoms = <<>> THEN "ok" ELSE "EmptyMixtureIsEmpty")
     ELSE IF Keys(e.result.atoms) # {k \in ks : want[k].s > 0} THEN "MixtureAtoms"
     ELSE LET ref == CHOOSE k \in Keys(e.result.atoms) : TRUE          \* proportionality to one reference atom suffices
              got == [k \in Keys(e.result.atoms) |-> CountOf(e.result.atoms, k)]
          IN IF \E a \in Keys(e.result.atoms) : ~Close(MulP(got[a], want[ref], P14), MulP(got[ref], want[a], P14), ptol) THEN "Proportions"
     ELSE IF "density_override" \in DOMAIN e THEN (IF Num(e.result.rho) /\ Close(e.result.rho.v, e.density_override, -12) THEN "ok" ELSE "GivenDensityKept")
     ELSE IF ~AllDens(cs) THEN (IF e.result.rho.k = "none" THEN "ok" ELSE "UnknownDensityStaysUnknown")
     ELSE IF ~Num(e.result.rho) THEN "MixtureDensityKnown"
     ELSE IF mode = "weight" /\ ~Close(MulP(e.result.rho.v, SumQOverRho(cs), P14), SumQ(cs), -10) THEN "DensityIsMassOverVolume"
     ELSE IF mode = "volume" /\ ~Close(MulP(e.result.rho.v, SumQ(cs), P14), SumQRho(cs), -10) THEN "DensityIsMassOverVolume"
     ELSE "ok"
MixClause(e) == MixClauseT(e, -10)
\* string forms: the quantities a spelled-out mixture denotes
\*   percent: q as written, the last component gets the remainder to 100
\*   mass/volume units: grams (volume: litres * 1000 * density)
\*   layers: thickness in metres, mixed by volume
RECURSIVE Denoted(_, _, _)
Denoted(parts, form, i) ==
  IF i > Len(parts) THEN <<>>
  ELSE LET p == parts[i]
           q == CASE form \in {"wt%", "vol%"} -> p.q
                  [] p.unit = "group" -> p.q                  \* a parenthesised sub-mixture: its own total mass / thickness
                  [] form = "abs" -> IF IsMass(p.unit) THEN MulP(p.q, MassUnit(p.unit), P14)
                                     ELSE MulP(MulP(MulP(p.q, VolUnit(p.unit), P14), FromInt(1000), P14), p.rho.v, P14)
                  [] form = "layer" -> MulP(p.q, LenUnit(p.unit), P14)
       IN << [p EXCEPT !.q = MulP(q, p.rep, P14)] >> \o Denoted(parts, form, i + 1)
StringClause(e) ==
  LET parts == e.parts
      n == Len(parts)
      form == e.form
      given == SumQ(SubSeq([i \in 1..n |-> [q |-> parts[i].q]], 1, n - 1))
      cs0 == Denoted(parts, form, 1)
      cs == IF form \in {"wt%", "vol%"} THEN [cs0 EXCEPT ![n].q = Sub(FromInt(100), given)] ELSE cs0
      mode == IF form \in {"vol%", "layer"} THEN "volume" ELSE "weight"
      bad == form \in {"wt%", "vol%"} /\ Gt(given, FromInt(100))
      novol == form = "abs" /\ \E i \in 1..n : parts[i].unit # "group" /\ IsVol(parts[i].unit) /\ ~Num(parts[i].rho)
      \* the remainder 100 - sum is computed in floating point: below 0.01 % its relative rounding error exceeds 1e-10
      small == form \in {"wt%", "vol%"} /\ Lt(Sub(FromInt(100), given), Sci(1, -2))
  IN IF bad \/ novol THEN (IF "exc" \in DOMAIN e.result THEN "ok" ELSE "MalformedMixtureRejected")
     ELSE IF \E i \in 1..n : ~TagOK(parts[i]) THEN "GroupDensityTag"
     ELSE LET c == MixClauseT([comps |-> cs, mode |-> mode, result |-> e.result], IF small THEN -5 ELSE -10)
          IN IF c # "ok" THEN c
             ELSE IF form = "abs" /\ (~Num(e.total_mass) \/ ~Close(e.total_mass.v, SumQ(cs), -11)) THEN "TotalMassRecorded"
             ELSE IF form = "layer" /\ (~Num(e.thickness) \/ ~Close(e.thickness.v, SumQ(cs), -11)) THEN "ThicknessRecorded"
             ELSE "ok"
\* two ways of writing the same mixture give the same thing (call vs string, unit spellings, scaled formula units)
SameBag(x, y) == Keys(x) = Keys(y) /\ \A a, b \in Keys(x) : Close(MulP(CountOf(x, a), CountOf(y, b), P14), MulP(CountOf(x, b), CountOf(y, a), P14), -10)
SameClause(e) ==
  IF ("exc" \in DOMAIN e.a) \/ ("exc" \in DOMAIN e.b) THEN (IF ("exc" \in DOMAIN e.a) /\ ("exc" \in DOMAIN e.b) THEN "ok" ELSE "SameMixtureBothDefined")
  ELSE IF ~SameBag(e.a.atoms, e.b.atoms) THEN "SameMixtureSameProportions:" \o e.why
  ELSE IF e.a.rho.k # e.b.rho.k \/ (Num(e.a.rho) /\ ~Close(e.a.rho.v, e.b.rho.v, -10)) THEN "SameMixtureSameDensity:" \o e.why
  ELSE "ok"
\* ---- density and natural density (C12) ---------------------------------------------------------------
\* atoms : [n, m (served mass), mnat (mass of the natural element with the same charge)]
RECURSIVE SumNM(_, _)
SumNM(as, f) == IF as = <<>> THEN Zero ELSE Add(MulP(Head(as).n, Head(as)[f], P14), SumNM(Tail(as), f))
NatdClause(e) ==
  LET M == SumNM(e.atoms, "m")  Mn == SumNM(e.atoms, "mnat")
  IN IF e.given.kind = "none" THEN
          (IF Len(e.atoms) = 1 THEN (IF e.density.k = e.atomdensity.k /\ (Num(e.density) => Close(e.density.v, e.atomdensity.v, -13)) THEN "ok" ELSE "SingleAtomDefaultDensity")
           ELSE IF e.density.k = "none" THEN "ok" ELSE "NoDefaultDensityForCompounds")
     ELSE IF ~Num(e.density) \/ ~Num(e.natural_density) THEN "DensityIsNumber"
     ELSE IF ~Close(MulP(e.natural_density.v, M, P14), MulP(e.density.v, Mn, P14), -11) THEN "NaturalDensityRatio"
     ELSE IF e.given.kind = "density" /\ ~Close(e.density.v, e.given.v, -13) THEN "GivenDensityIsDensity"
     ELSE IF e.given.kind = "natural" /\ ~Close(e.natural_density.v, e.given.v, -11) THEN "GivenNaturalDensityIsNaturalDensity"
     ELSE "ok"
\* ---- isotope substitution (C12) ------------------------------------------------------------------------
SubstClause(e) ==
  LET src == e.src  tgt == e.tgt  p == e.p
      before == e.before  after == e.after
      n0 == CountOf(before, src)
      wantsrc == MulP(n0, Sub(One, p), P14)
      wanttgt == Add(CountOf(before, tgt), MulP(n0, p, P14))
      ks == Keys(before) \cup (IF n0.s > 0 THEN {tgt} ELSE {})
  IN IF "exc" \in DOMAIN e THEN "SubstitutionComputes"
     ELSE IF \E k \in ks \ {src, tgt} : ~Close(CountOf(after, k), CountOf(before, k), -12) THEN "OtherCountsUnchanged"
     ELSE IF \E k \in Keys(after) : k \notin ks THEN "NoNewAtoms"
     ELSE IF src # tgt /\ ~CloseScaled(CountOf(after, src), wantsrc, -12, n0) THEN "SourceReduced"
     ELSE IF src # tgt /\ ~CloseScaled(CountOf(after, tgt), wanttgt, -12, Add(wanttgt, One)) THEN "TargetIncreased"
     ELSE IF e.rho0.k = "none" THEN          \* (a result with a single kind of atom may fall back to that atom's density)
          (IF e.rho1.k = "none" \/ Cardinality(Keys(after)) = 1 THEN "ok" ELSE "UnknownDensityStaysUnknown")
     ELSE IF ~Num(e.rho1) \/ ~Close(MulP(e.rho1.v, e.mass0, P14), MulP(e.rho0.v, e.mass1, P14), -11) THEN "CellVolumeKept"
     ELSE "ok"
\* ---- volume (C12) ------------------------------------------------------------------------------------------
PackSq(name) == CASE name = "cubic" -> [lhs |-> 36, rhs |-> 1]        \* pf^2 * lhs = pi^2 * rhs
                  [] name = "bcc" -> [lhs |-> 64, rhs |-> 3] [] name \in {"hcp", "fcc"} -> [lhs |-> 18, rhs |-> 1]
                  [] name = "diamond" -> [lhs |-> 256, rhs |-> 3]
RECURSIVE SumNR3(_)
SumNR3(as) == IF as = <<>> THEN Zero ELSE Add(MulP(Head(as).n, MulP(Sq(Head(as).r), Head(as).r, P14), P14), SumNR3(Tail(as)))
Rad(deg) == DivInt(MulP(deg, Pi, 16), 180, 16)
VolClause(e) ==
  IF e.kind = "packing" THEN
       LET pf == e.pf            \* packing factor value (given number, or the witness for a named lattice)
           okname == IF "name" \in DOMAIN e
                     THEN Close(MulInt(Sq(pf), PackSq(e.name).lhs), MulInt(Sq(Pi), PackSq(e.name).rhs), -13) ELSE TRUE
       IN IF ~okname THEN "PackingFactorWitness"
          ELSE IF ~Num(e.V) \/ ~Close(MulP(MulInt(MulP(e.V.v, pf, P14), 3), Sci(1, 24), P14), MulP(MulInt(Pi, 4), SumNR3(e.atoms), P14), -11)
               THEN "VolumeIsSpheresOverPacking" ELSE "ok"
  ELSE LET ca == Cos(Rad(e.alpha), 12)  cb == Cos(Rad(e.beta), 12)  cg == Cos(Rad(e.gamma), 12)
           inner == Add(Sub(Sub(Sub(One, Sq(ca)), Sq(cb)), Sq(cg)), MulInt(MulP(MulP(ca, cb, P14), cg, P14), 2))
           abc2 == Sq(MulP(MulP(e.a, e.b, P14), e.c, P14))
       IN IF ~Num(e.V) \/ e.V.v.s < 0
             \/ ~CloseScaled(MulP(Sq(e.V.v), Sci(1, 48), P14), MulP(abc2, inner, P14), -10, abc2) THEN "LatticeCellVolume" ELSE "ok"
Clause(e) ==
  CASE e.ev = "mix" -> MixClause(e)
    [] e.ev = "mixstr" -> StringClause(e)
    [] e.ev = "same" -> SameClause(e)
    [] e.ev = "natd" -> NatdClause(e)
    [] e.ev = "subst" -> SubstClause(e)
    [] e.ev = "vol" -> VolClause(e)
Init == l = 2
Next == /\ l <= Len(Log)
        /\ LET c == Clause(Log[l]) IN (c # "ok" => PrintT("@@" \o ToJson([id |-> Log[l].id, clause |-> c])))
        /\ l' = l + 1
TraceSpec == Init /\ [][Next]_l
Done == TLCGet("stats").diameter = Len(Log) /\ PrintT("@@" \o ToJson([summary |-> TRUE, events |-> Len(Log) - 1]))
=============================================================================
