---------------------------- MODULE PTActivation ----------------------------
(***************************************************************************)
(* Exact solutions of the documented capture / decay chains (C14) and the  *)
(* post-condition of decay_time (C15), over 60-digit decimals.             *)
(*                                                                         *)
(* Rates are per hour.  For a target nuclide with N0 atoms:                *)
(*   s1  = phi_eff * sigma_eff * 1e-24 * 3600      capture rate of target  *)
(*   root = phi_eff * sigma_eff * 1e-24 * (m / A) * 1.6278e19   (uCi scale)*)
(*   lam = ln 2 / T_half                          decay of the product     *)
(* act (and the fast reactions n,p n,a n,2n n,n'):                         *)
(*     N0 -s1-> P, P removed at lam + s2 (decay + burn-up s2)              *)
(*     A = root * lam / (lam - s1 + s2) * (exp(-s1 t) - exp(-(lam+s2) t))  *)
(* b   N0 -const-> parent(lp) -> D(lam)                                    *)
(*     A = root * [1 - (lp exp(-lam t) - lam exp(-lp t)) / (lp - lam)]     *)
(* 2n  N0 -a-> P (removed at b = s2 + lp, of which s2 captures to D) -> D  *)
(*     (decays at c = lam)                                                 *)
(*     A = root * lam * s2 * SUM_i exp(-k_i t) / PROD_(j#i) (k_j - k_i)    *)
(* sigma_eff = thermal + resonance / Cd for Cd >= 1, thermal otherwise;    *)
(* phi_eff = phi / fast_ratio for fast reactions (omitted when 0).         *)
(* Rest: A(t_rest) = A * 2^(-t_rest / T_half).                             *)
(***************************************************************************)
EXTENDS Dec, Sequences, Integers
PA == 15
M(x, y) == MulP(x, y, PA)
D(x, y) == Div(x, y, PA)
E(x) == Exp(x, PA)
UCi == Sci(16278, 15)                       \* 1.6278e19
Barn3600 == Sci(36, -22)                    \* 1e-24 * 3600
SigmaEff(th, res, cd) == IF Ge(cd, One) THEN Add(th, D(res, cd)) ELSE th
\* everything the three chains need, from a table row r and conditions c
Setup(r, c) ==
  LET sigma == SigmaEff(r.thermalXS, r.resonance, c.cd)
      flux == IF r.fast THEN D(c.fluence, c.fast_ratio) ELSE c.fluence
      sigp == SigmaEff(r.thermalXS_parent, r.resonance_parent, c.cd)
  IN [sigma |-> sigma, flux |-> flux,
      root |-> M(M(M(M(flux, sigma), Sci(1, -24)), D(c.mass, FromInt(r.A))), UCi),
      lam |-> D(Ln2, r.Thalf_hrs),
      s1 |-> M(M(flux, sigma), Barn3600),
      s2 |-> M(M(c.fluence, sigp), Barn3600),              \* burn-up always uses the total thermal flux
      lp |-> IF IsZero(r.Thalf_parent) THEN Zero ELSE D(Ln2, r.Thalf_parent)]
Omitted(r, c) == r.fast /\ IsZero(c.fast_ratio)
\* activity at the end of an exposure of t hours; [ok |-> FALSE] when two rates coincide (limit form not needed by any row)
ActAt(r, s, t) ==
  IF r.reaction = "b"
  THEN LET den == Sub(s.lp, s.lam)
       IN IF IsZero(den) THEN [ok |-> FALSE, A |-> Zero]
          ELSE [ok |-> TRUE,
                A |-> M(s.root, Sub(One, D(Sub(M(s.lp, E(Neg(M(s.lam, t)))), M(s.lam, E(Neg(M(s.lp, t))))), den)))]
  ELSE IF r.reaction = "2n"
  THEN LET a == s.s1  b == Add(s.s2, s.lp)  c == s.lam
           t1 == D(E(Neg(M(a, t))), M(Sub(b, a), Sub(c, a)))
           t2 == D(E(Neg(M(b, t))), M(Sub(a, b), Sub(c, b)))
           t3 == D(E(Neg(M(c, t))), M(Sub(a, c), Sub(b, c)))
       IN IF IsZero(Sub(b, a)) \/ IsZero(Sub(c, a)) \/ IsZero(Sub(c, b)) THEN [ok |-> FALSE, A |-> Zero]
          ELSE [ok |-> TRUE, A |-> M(M(M(s.root, s.lam), s.s2), Add(Add(t1, t2), t3))]
  ELSE LET den == Add(Sub(s.lam, s.s1), s.s2)
       IN IF IsZero(den) THEN [ok |-> FALSE, A |-> Zero]
          ELSE [ok |-> TRUE,
                A |-> M(M(s.root, D(s.lam, den)), Sub(E(Neg(M(s.s1, t))), E(Neg(M(Add(s.lam, s.s2), t)))))]
RestFactor(s, trest) == E(Neg(M(s.lam, trest)))
\* comparison "to within double-precision rounding of the exact solution" (1e-9 relative, or both below 1e-290)
Tiny == Sci(1, -290)
ActClose(got, want) == \/ CloseScaled(got, want, -9, Abs(want))
                       \/ (Lt(Abs(got), Tiny) /\ Lt(Abs(want), Tiny))
=============================================================================
