------------------------------ MODULE Trace_Anc ------------------------------
(***************************************************************************)
(* C20: reference readers for the five ancillary tables and serve events.  *)
(*  Cordero   Z sym r [unc n]; rows starting with '-' are alternate spin   *)
(*            states of the previous element and are skipped; unc * 0.01   *)
(*  Crystal   list index = Z; None or a record                             *)
(*  Emission  Sym K_alpha K_beta1                                          *)
(*  CFML      Magnetic_Form | j2 | j4 | j6 records: label = [M|J] + upper  *)
(*            case symbol + charge digit (M = <j0>), 7 coefficients        *)
(*  Dabax     #S n Sym[q+-] ... 11 numbers a1..a5 c b1..b5                 *)
(* Symbols arrive as character codes and are resolved here.                *)
(***************************************************************************)
EXTENDS PTReaders, Json, IOUtils, TLCExt, TLC, FiniteSets
Log == ndJsonDeserialize(IOEnv.TRACE_FILE)
Hdr == Log[1]
VARIABLES l, cov, cryst, emis, mag, cm
vars == <<l, cov, cryst, emis, mag, cm>>
Init == l = 2 /\ cov = <<>> /\ cryst = <<>> /\ emis = <<>> /\ mag = <<>> /\ cm = <<>>

Upper(c) == IF c >= 97 /\ c <= 122 THEN c - 32 ELSE c
UpperSeq(s) == [i \in DOMAIN s |-> Upper(s[i])]
IsDigit(c) == c >= 48 /\ c <= 57
IsLetter(c) == (c >= 65 /\ c <= 90) \/ (c >= 97 /\ c <= 122)
\* atomic number of a symbol given as character codes, compared case-insensitively; 0 - 1 if unknown
ZOfCodes(s) == LET X == {z \in 0..118 : Hdr.symcodes[ToString(z)] = s}
                   S == {z \in 1..118 : UpperSeq(Hdr.symcodes[ToString(z)]) = UpperSeq(s)}
               IN IF X # {} THEN CHOOSE z \in X : TRUE ELSE IF S = {} THEN -1 ELSE CHOOSE z \in S : TRUE
\* CFML label without its M/J prefix: <EL><digit>, EL one or two letters
LabelSplit(s) == IF Len(s) >= 2 /\ IsDigit(s[2]) THEN [sym |-> SubSeq(s, 1, 1), q |-> s[2] - 48]
                 ELSE IF Len(s) >= 3 /\ IsDigit(s[3]) THEN [sym |-> SubSeq(s, 1, 2), q |-> s[3] - 48]
                 ELSE [sym |-> <<>>, q |-> 0]
\* Dabax symbol: letters, then optional digit and sign
RECURSIVE Letters(_, _)
Letters(s, i) == IF i <= Len(s) /\ IsLetter(s[i]) THEN Letters(s, i + 1) ELSE i - 1
DabaxSplit(s) == LET n == Letters(s, 1)
                     rest == SubSeq(s, n + 1, Len(s))
                 IN IF rest = <<>> THEN [sym |-> SubSeq(s, 1, n), q |-> 0, ok |-> TRUE]
                    ELSE IF Len(rest) = 2 /\ IsDigit(rest[1]) /\ rest[2] \in {43, 45}
                         THEN [sym |-> SubSeq(s, 1, n), q |-> IF rest[2] = 43 THEN rest[1] - 48 ELSE -(rest[1] - 48), ok |-> TRUE]
                         ELSE [sym |-> s, q |-> 0, ok |-> FALSE]
NumIs(sv, x) == sv.k = "num" /\ Close(sv.v, x, -14)
SeqIs(sv, xs) == Len(sv) = Len(xs) /\ \A i \in DOMAIN xs : NumIs(sv[i], xs[i])

ElClause(e) ==
  LET z == e.z
  IN IF z \in DOMAIN cov
     THEN (IF ~NumIs(e.cr, cov[z].r) THEN "CovalentRadius"
           ELSE IF ~NumIs(e.cru, Mul(cov[z].u, Sci(1, -2))) THEN "CovalentRadiusUncertainty" ELSE "ok")
     ELSE IF z = 0 THEN "ok"                                    \* the neutron's nominal radius is not in the table
     ELSE IF e.cr.k # "none" \/ e.cru.k # "none" THEN "NoRadiusWithoutEntry" ELSE "ok"
CsClause(e) ==
  LET z == e.z
  IN IF z \in DOMAIN cryst /\ cryst[z].k = "dict"
     THEN (IF e.cs.k # "dict" \/ e.cs.symmetry # cryst[z].symmetry \/ DOMAIN e.cs.nums # DOMAIN cryst[z].nums
              \/ \E f \in DOMAIN cryst[z].nums : ~Close(e.cs.nums[f], cryst[z].nums[f], -14) THEN "CrystalStructure" ELSE "ok")
     ELSE IF z \in DOMAIN cryst THEN (IF e.cs.k = "none" THEN "ok" ELSE "NoStructureWithoutEntry")
     ELSE IF e.cs.k \in {"exc", "none"} THEN "ok" ELSE "NoStructureWithoutEntry"
EmClause(e) ==
  IF e.z \in DOMAIN emis
  THEN (IF NumIs(e.ka, emis[e.z].ka) /\ NumIs(e.kb, emis[e.z].kb) THEN "ok" ELSE "EmissionLines")
  ELSE IF e.ka.k \in {"exc", "none"} /\ e.kb.k \in {"exc", "none"} THEN "ok" ELSE "NoEmissionWithoutEntry"
MagKeys(z) == {k \in DOMAIN mag : k[1] = z}
MagClause(e) ==          \* e.sets : record charge-string -> record jn -> 7 coefficients
  LET z == e.z
      want == {<<k[2], k[3]>> : k \in MagKeys(z)}
      got == IF e.noattr THEN {} ELSE UNION {{<<q, jn>> : jn \in DOMAIN e.sets[ToString(q)]} : q \in {x \in -9..9 : ToString(x) \in DOMAIN e.sets}}
  IN IF "charges" \in DOMAIN e /\ {e.charges[i] : i \in DOMAIN e.charges} # {k[1] : k \in want} THEN "MagneticChargeStates"
     ELSE IF want # got THEN "MagneticChargeStatesAndOrders"
     ELSE IF \E k \in want : \A c \in mag[<<z, k[1], k[2]>>] : ~SeqIs(e.sets[ToString(k[1])][k[2]], c) THEN "MagneticCoefficients"
     ELSE "ok"
CmClause(e) ==
  LET k == <<e.z, e.q>>
  IN IF k \in DOMAIN cm
     THEN (IF "exc" \in DOMAIN e THEN "CromerMannEntryServed"
           ELSE IF ~SeqIs(e.a, SubSeq(cm[k], 1, 5)) \/ ~NumIs(e.c, cm[k][6]) \/ ~SeqIs(e.b, SubSeq(cm[k], 7, 11)) THEN "CromerMannCoefficients"
           ELSE "ok")
     ELSE IF "exc" \in DOMAIN e THEN "ok" ELSE "NoCromerMannWithoutEntry"
\* every route to f0 (symbol text, charge keyword, charge keyword over a valence suffix, the atom's own f0) reaches the same
\* entry: all give the same number when the table has the entry, all fail when it has not
CmRoutes(e) ==
  IF "routes" \notin DOMAIN e THEN "ok"
  ELSE LET r == e.routes  k == <<e.z, e.q>>
       IN IF k \in DOMAIN cm
          THEN (IF \E n \in DOMAIN r : r[n].k # "num" \/ r[n] # r.text THEN "FormFactorRoutesAgree" ELSE "ok")
          ELSE (IF \E n \in DOMAIN r : r[n].k = "num" THEN "NoFormFactorWithoutEntry" ELSE "ok")
\* form factor evaluation: A exp(-a s^2) + B exp(-b s^2) + C exp(-c s^2) + D, times s^2 for n > 0, s = Q / 4 pi
S2(Q) == Div(Sq(Q), MulInt(Sq(Pi), 16), 14)
FF(c, Q, n) == LET s2 == S2(Q)
                   t(i) == MulP(c[i], Exp(Neg(MulP(c[i + 1], s2, 14)), 12), 14)
                   v == Add(Add(Add(t(1), t(3)), t(5)), c[7])
               IN IF n = 0 THEN v ELSE MulP(s2, v, 14)
\* the form factors of one charge state evaluated one after the other over the caller's array of Q
VecClause(e) ==
  IF ~e.kept THEN "FormFactorLeavesItsArgumentAlone"
  ELSE IF \E jn \in DOMAIN e.sets :
            LET v == e.sets[jn].vec  s == e.sets[jn].scalar
            IN Len(v) # Len(s) \/ \E i \in DOMAIN s : v[i].k # "num" \/ s[i].k # "num" \/ ~CloseScaled(v[i].v, s[i].v, -12, One)
       THEN "VectorIsPointwise"
  ELSE "ok"
EvalClause(e) ==
  LET k == <<e.z, e.q, e.jn>>
  IN IF k \notin DOMAIN mag THEN "EvalOfUnknownSet"
     ELSE IF ~\E x \in mag[k] : SeqIs(e.coef, x) THEN "EvalWithCoefficientsNotInTable"
     ELSE LET c == CHOOSE x \in mag[k] : SeqIs(e.coef, x)
              want == FF(c, e.Q, IF e.jn \in {"j0", "J"} THEN 0 ELSE 1)
          IN IF e.val.k # "num" \/ ~CloseScaled(e.val.v, want, -10, One) THEN "FormFactorEquation"
             ELSE IF IsZero(e.Q) /\ e.jn = "j0" /\ (Lt(e.val.v, Sci(995, -3)) \/ Gt(e.val.v, Sci(1005, -3))) THEN "J0IsOneAtZero"
             ELSE IF IsZero(e.Q) /\ e.jn \in {"j2", "j4", "j6"} /\ ~IsZero(e.val.v) THEN "HigherOrdersVanishAtZero"
             ELSE "ok"
\* the row's label is the symbol of its Z, possibly followed by a hybridisation / spin-state note (Csp3, Fel.s.)
LabelStartsWithSymbol(lab, z) ==
  LET sym == Hdr.symcodes[ToString(z)]
  IN Len(lab) >= Len(sym) /\ SubSeq(lab, 1, Len(sym)) = sym
Emit(id, c) == c # "ok" => PrintT("@@" \o ToJson([id |-> id, clause |-> c]))
Step ==
  /\ l <= Len(Log)
  /\ l' = l + 1
  /\ LET e == Log[l]
     IN CASE e.ev = "cordero" ->
               /\ cov' = IF e.alt THEN cov ELSE (e.z :> [r |-> e.r, u |-> e.u]) @@ cov      \* first spin state only
               /\ Emit(e.id, IF ~e.alt /\ e.z \in DOMAIN cov THEN "CorderoDuplicateZ"
                             ELSE IF ~e.alt /\ "label" \in DOMAIN e /\ ~LabelStartsWithSymbol(e.label, e.z) THEN "CorderoRowLabelMatchesZ" ELSE "ok")
               /\ UNCHANGED <<cryst, emis, mag, cm>>
          [] e.ev = "cryst" ->      \* (the row's own '#Sym' comment names the element whose index it sits at; 'X' is the neutron's row)
               /\ cryst' = (e.z :> e.value) @@ cryst
               \* (a single wrong comment is a typo - row 65 says Th for Tb -; a run of them is a shifted table)
               /\ Emit(e.id, IF "shifted" \in DOMAIN e /\ e.shifted THEN "CrystalRowsShiftedAgainstTheirLabels" ELSE "ok")
               /\ UNCHANGED <<cov, emis, mag, cm>>
          [] e.ev = "emis" ->
               /\ emis' = (ZOfCodes(e.sym) :> [ka |-> e.ka, kb |-> e.kb]) @@ emis
               /\ Emit(e.id, IF ZOfCodes(e.sym) >= 1 THEN "ok" ELSE "EmissionSymbolKnown")
               /\ UNCHANGED <<cov, cryst, mag, cm>>
          [] e.ev = "cfml" ->
               /\ LET body == IF e.kind = "form" THEN SubSeq(e.label, 2, Len(e.label)) ELSE e.label
                      sp == LabelSplit(body)
                      jn == IF e.kind = "form" THEN (IF e.label[1] = 77 THEN "j0" ELSE "J") ELSE e.kind
                      k == <<ZOfCodes(sp.sym), sp.q, jn>>
                  IN /\ mag' = (k :> ((IF k \in DOMAIN mag THEN mag[k] ELSE {}) \cup {e.coef})) @@ mag
                     /\ Emit(e.id, IF k[1] >= 1 THEN "ok" ELSE "MagneticLabelKnown")
               /\ UNCHANGED <<cov, cryst, emis, cm>>
          [] e.ev = "dabax" ->
               /\ LET sp == DabaxSplit(e.sym)
                      z == ZOfCodes(sp.sym)
                  IN cm' = IF sp.ok /\ z >= 1 THEN (<<z, sp.q>> :> e.nums) @@ cm ELSE cm     \* Cval, Siva: not an atom or ion
               /\ UNCHANGED <<cov, cryst, emis, mag>>
          [] e.ev = "serve_el" ->
               /\ Emit(e.id, IF ElClause(e) # "ok" THEN ElClause(e) ELSE IF CsClause(e) # "ok" THEN CsClause(e) ELSE EmClause(e))
               /\ UNCHANGED <<cov, cryst, emis, mag, cm>>
          [] e.ev = "serve_mag" -> Emit(e.id, MagClause(e)) /\ UNCHANGED <<cov, cryst, emis, mag, cm>>
          [] e.ev = "serve_cm" -> Emit(e.id, IF CmClause(e) # "ok" THEN CmClause(e) ELSE CmRoutes(e)) /\ UNCHANGED <<cov, cryst, emis, mag, cm>>
          [] e.ev = "eval_mag" -> Emit(e.id, EvalClause(e)) /\ UNCHANGED <<cov, cryst, emis, mag, cm>>
          [] e.ev = "eval_mag_vec" -> Emit(e.id, VecClause(e)) /\ UNCHANGED <<cov, cryst, emis, mag, cm>>
TraceSpec == Init /\ [][Step]_vars
Done == TLCGet("stats").diameter = Len(Log) /\ PrintT("@@" \o ToJson([summary |-> TRUE, events |-> Len(Log) - 1]))
=============================================================================
