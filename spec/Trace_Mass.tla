------------------------------ MODULE Trace_Mass ------------------------------
(***************************************************************************)
(* C06: reference readers for the isotope-mass, atomic-weight, isotopic-   *)
(* composition and density tables, run as a state machine over the raw     *)
(* rows (in table order), followed by "serve" events recording what the    *)
(* real library returns for each element / isotope.                        *)
(*  IsoMassRow  z-El-A, mass(unc)#?, _, element mass(unc)                  *)
(*  Neutron     element 0 and its isotope 1 have the neutron mass          *)
(*  ElMassRow   z El name value|-   (value overrides the fallback)         *)
(*  CompHeader / CompRow / CompEnd : composition table, one block per      *)
(*              element; a block is flushed (normalised to 100 %) when the *)
(*              next header arrives AND at the end of the table            *)
(*  Density     symbol -> value | (value, caveat) | None                   *)
(*  Serve       compared with the data built so far                        *)
(***************************************************************************)
EXTENDS PTReaders, Json, IOUtils, TLCExt, TLC, FiniteSets
Log == ndJsonDeserialize(IOEnv.TRACE_FILE)
Hdr == Log[1]
VARIABLES l, iso, el, curz, pend, ab, listed, dens
vars == <<l, iso, el, curz, pend, ab, listed, dens>>
Flush(z, pd, abf) ==         \* normalise the pending block of element z to 100 %
  LET ks == DOMAIN pd
      RECURSIVE Tot(_)
      Tot(S) == IF S = {} THEN Zero ELSE LET a == CHOOSE x \in S : TRUE IN Add(UncValue(pd[a]), Tot(S \ {a}))
      total == Tot(ks)
  IN [k \in (DOMAIN abf) \cup {<<z, a>> : a \in ks} |->
        IF k[1] = z /\ k[2] \in ks THEN [n |-> pd[k[2]], total |-> total] ELSE abf[k]]
Init == l = 2 /\ iso = <<>> /\ el = <<>> /\ curz = 0 /\ pend = <<>> /\ ab = <<>> /\ listed = {} /\ dens = <<>>

\* ---- what the tables say about an atom ------------------------------------------
ElMass(z) == el[z]                                   \* notation record (mass(unc))
Abundance(z, a) == IF <<z, a>> \in DOMAIN ab THEN ab[<<z, a>>] ELSE NoVal
MassClause(e) ==
  LET z == e.z  a == e.a
      n == IF a = 0 THEN (IF z \in DOMAIN el THEN el[z] ELSE [k |-> "empty"])
           ELSE (IF <<z, a>> \in DOMAIN iso THEN iso[<<z, a>>] ELSE [k |-> "empty"])
  IN IF n.k = "empty" THEN "AtomIsInMassTable"
     ELSE IF e.mass.k # "num" \/ ~Close(e.mass.v, UncValue(n), -14) THEN "MassIsTableEntry"
     ELSE IF e.mass_unc.k # "num" \/ ~UncOK(e.mass_unc.v, n) THEN "MassUncertaintyIsTableEntry"
     ELSE "ok"
AbClause(e) ==
  IF e.a = 0 THEN "ok"
  ELSE LET x == Abundance(e.z, e.a)
       IN IF e.abundance.k # "num" THEN "AbundanceIsNumber"
          ELSE IF IsNone(x) THEN (IF e.z = 0 /\ e.a = 1 THEN (IF Close(e.abundance.v, FromInt(100), -14) THEN "ok" ELSE "NeutronAbundance")
                                  ELSE IF IsZero(e.abundance.v) THEN "ok" ELSE "AbsentIsotopeHasZeroAbundance")
          ELSE IF ~Close(Mul(e.abundance.v, x.total), Mul(FromInt(100), UncValue(x.n)), -13) THEN "AbundanceIsTableEntry"
          \* its uncertainty is the notation's (value(unc), or (high-low)/sqrt(12) for a range), on the same percent scale
          ELSE IF "abundance_unc" \in DOMAIN e /\ (e.abundance_unc.k # "num" \/ ~UncOK(DivInt(Mul(e.abundance_unc.v, x.total), 100, 14), x.n))
               THEN "AbundanceUncertaintyIsTableEntry"
          ELSE "ok"
DensClause(e) ==
  LET d == IF e.z \in DOMAIN dens THEN dens[e.z] ELSE NoVal
      mel == UncValue(el[e.z])
  IN IF IsNone(d) THEN (IF e.density.k = "none" /\ e.number_density.k = "none" /\ e.interatomic_distance.k = "none" THEN "ok"
                        ELSE "UnknownDensityIsUnknown")
     ELSE IF e.density.k # "num" THEN "DensityIsTableEntry"
     ELSE IF e.a = 0 /\ ~Close(e.density.v, d, -14) THEN "DensityIsTableEntry"
     ELSE IF e.a # 0 /\ ~Close(Mul(e.density.v, mel), Mul(d, UncValue(iso[<<e.z, e.a>>])), -12) THEN "IsotopeDensityScalesWithMass"
     ELSE IF e.number_density.k # "num" \/ ~Close(Mul(e.number_density.v, mel), Mul(d, Hdr.avogadro), -12) THEN "NumberDensity"
     ELSE IF e.interatomic_distance.k # "num"
             \/ ~Close(Mul(e.number_density.v, Mul(Sq(e.interatomic_distance.v), e.interatomic_distance.v)), Sci(1, 24), -11)
          THEN "InteratomicDistance"
     ELSE "ok"
\* mass.mass(x), density.density(x), ... are the attributes x.mass, x.density, ... (same values through either route)
FnClause(e) ==
  IF "fn" \notin DOMAIN e THEN "ok"
  ELSE IF e.fn.mass # e.mass THEN "FunctionRoute:mass"
  ELSE IF e.fn.density # e.density THEN "FunctionRoute:density"
  ELSE IF e.fn.number_density # e.number_density THEN "FunctionRoute:number_density"
  ELSE IF e.fn.interatomic_distance # e.interatomic_distance THEN "FunctionRoute:interatomic_distance"
  ELSE "ok"
ServeClause(e) ==
  IF "exc" \in DOMAIN e THEN "ServeRaised"
  ELSE IF MassClause(e) # "ok" THEN MassClause(e)
  ELSE IF AbClause(e) # "ok" THEN AbClause(e)
  ELSE IF DensClause(e) # "ok" THEN DensClause(e)
  ELSE FnClause(e)
\* ---- data invariants, evaluated when the tables have been read ---------------------
SumAb(z) == LET S == {k \in DOMAIN ab : k[1] = z}
                RECURSIVE T(_)
                T(X) == IF X = {} THEN Zero ELSE LET k == CHOOSE x \in X : TRUE IN Add(UncValue(ab[k].n), T(X \ {k}))
            IN [sum |-> T(S), total |-> IF S = {} THEN Zero ELSE ab[CHOOSE k \in S : TRUE].total]
Weighted(z) == LET S == {k \in DOMAIN ab : k[1] = z}
                   RECURSIVE T(_)
                   T(X) == IF X = {} THEN Zero
                           ELSE LET k == CHOOSE x \in X : TRUE IN Add(Mul(UncValue(ab[k].n), UncValue(iso[k])), T(X \ {k}))
               IN T(S)                                \* = total * weighted mass
DataClause(z) ==
  LET s == SumAb(z)
  IN IF ~Eq(s.sum, s.total) THEN "AbundancesSumTo100"
     ELSE IF \E k \in DOMAIN ab : k[1] = z /\ k \notin DOMAIN iso THEN "CompositionIsotopeHasMass"
     ELSE IF Gt(Abs(Sub(Weighted(z), Mul(s.total, UncValue(el[z])))), Mul(s.total, UncBound(el[z]))) THEN "WeightedMassWithinUncertainty"
     ELSE "ok"

Emit(id, c) == c # "ok" => PrintT("@@" \o ToJson([id |-> id, clause |-> c]))
Step ==
  /\ l <= Len(Log)
  /\ l' = l + 1
  /\ LET e == Log[l]
     IN CASE e.ev = "imrow" ->
               /\ iso' = (<<e.z, e.a>> :> e.m) @@ iso
               /\ el' = IF e.avg.k = "empty" /\ e.z \in DOMAIN el THEN el ELSE (e.z :> e.avg) @@ el
               /\ Emit(e.id, IF e.sym = Hdr.symof[ToString(e.z)] THEN "ok" ELSE "SymbolMatchesZ")
               /\ UNCHANGED <<curz, pend, ab, listed, dens>>
          [] e.ev = "neutron" ->
               /\ iso' = (<<0, 1>> :> e.m) @@ iso /\ el' = (0 :> e.m) @@ el
               /\ UNCHANGED <<curz, pend, ab, listed, dens>>
          [] e.ev = "emrow" ->
               /\ el' = IF e.value.k = "dash" THEN el ELSE (e.z :> e.value) @@ el
               /\ UNCHANGED <<iso, curz, pend, ab, listed, dens>>
          [] e.ev = "abhdr" ->
               /\ ab' = IF curz = 0 THEN ab ELSE Flush(curz, pend, ab)
               /\ listed' = IF curz = 0 THEN listed ELSE listed \cup {curz}
               /\ curz' = e.z /\ pend' = <<>>
               /\ UNCHANGED <<iso, el, dens>>
          [] e.ev = "abrow" ->
               /\ pend' = (e.a :> e.value) @@ pend
               /\ UNCHANGED <<iso, el, curz, ab, listed, dens>>
          [] e.ev = "abend" ->                      \* end of the composition table: the last block is flushed too
               /\ ab' = IF curz = 0 THEN ab ELSE Flush(curz, pend, ab)
               /\ listed' = IF curz = 0 THEN listed ELSE listed \cup {curz}
               /\ curz' = 0 /\ pend' = <<>>
               /\ UNCHANGED <<iso, el, dens>>
          [] e.ev = "dens" ->
               /\ dens' = (e.z :> (IF e.value.k = "none" THEN NoVal ELSE e.value.v)) @@ dens
               /\ UNCHANGED <<iso, el, curz, pend, ab, listed>>
          [] e.ev = "datacheck" ->
               /\ \A z \in listed : Emit("data:" \o ToString(z), DataClause(z))
               /\ Emit("data:listed", IF Cardinality(listed) = e.nlisted THEN "ok" ELSE "EveryListedElementFlushed")
               /\ UNCHANGED <<iso, el, curz, pend, ab, listed, dens>>
          [] e.ev = "serve" ->
               /\ Emit(e.id, ServeClause(e))
               /\ UNCHANGED <<iso, el, curz, pend, ab, listed, dens>>
TraceSpec == Init /\ [][Step]_vars
Done == TLCGet("stats").diameter = Len(Log) /\ PrintT("@@" \o ToJson([summary |-> TRUE, events |-> Len(Log) - 1]))
=============================================================================
