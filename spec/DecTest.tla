------------------------------ MODULE DecTest ------------------------------
(* Unit tests of Dec.tla against vectors computed with Python's decimal module
   (harness/ptv/dectest.py).  Python tests the arithmetic; it is never the oracle
   of a property. *)
EXTENDS Dec, Json, IOUtils, TLC, TLCExt
Log == ndJsonDeserialize(IOEnv.TRACE_FILE)
VARIABLE l
Result(t) ==
  CASE t.op = "add"   -> Eq(Add(t.a, t.b), t.want)
    [] t.op = "sub"   -> Eq(Sub(t.a, t.b), t.want)
    [] t.op = "mul"   -> Eq(Mul(t.a, t.b), t.want)
    [] t.op = "cmp"   -> Cmp(t.a, t.b) = t.n
    [] t.op = "half"  -> Eq(Half(t.a), t.want)
    [] t.op = "divint"-> Close(DivInt(t.a, t.n, 12), t.want, -44)
    [] t.op = "recip" -> Close(Recip(t.a, 12), t.want, -44)
    [] t.op = "div"   -> Close(Div(t.a, t.b, 12), t.want, -42)
    [] t.op = "exp"   -> IF t.want.s = 0 THEN Le(Exp(t.a, 12), Sci(1, -5000)) ELSE Close(Exp(t.a, 12), t.want, -38)
    [] t.op = "expm1n"-> Close(Expm1Neg(t.a, 12), t.want, -38)
    [] t.op = "cos"   -> CloseScaled(Cos(t.a, 12), t.want, -38, One)
    [] t.op = "close" -> Close(t.a, t.b, t.n) = (t.want.s = 1)
    [] t.op = "sci"   -> Eq(Sci(t.n, t.k), t.want)
    [] t.op = "fromint" -> Eq(FromInt(t.n), t.want)
    [] t.op = "pi"    -> Close(Pi, t.want, -58)
    [] t.op = "ln2"   -> Close(Ln2, t.want, -58)
Init == l = 1
Next == /\ l <= Len(Log)
        /\ PrintT("@@" \o ToJson([i |-> l, op |-> Log[l].op, ok |-> Result(Log[l])]))
        /\ l' = l + 1
Spec == Init /\ [][Next]_l
Done == TLCGet("stats").diameter - 1 = Len(Log)
=============================================================================
