------------------------------ MODULE PTFormula ------------------------------
(***************************************************************************)
(* Formula objects with identity (property C02, and the Hill action of     *)
(* C19): a pool of Python variables naming formula objects, and the        *)
(* constructors / operators that create or mutate them.  The model value   *)
(* of an object is its composition, a bag atom -> dyadic count; the        *)
(* mutating operations are += and change_table (every variable aliasing    *)
(* the object sees them).                                                  *)
(*   New(v, how, b)   formula(str | atom | dict | seq)   new object        *)
(*   Copy(v, w)       formula(w)                         new object        *)
(*   Add(v, a, b)     a + b                              new object        *)
(*   RMul(v, n, a)    n * a                              new object        *)
(*   Hill(v, a)       a.hill                             new object        *)
(*   IAdd(a, b)       a += b                             mutates a's object*)
(*   Alias(v, w)      v = w                              same object       *)
(*   ChTab(a, t)      a.change_table(table t)            mutates a's object*)
(* Atoms live in one of two tables (the history's home table 0 and the     *)
(* other one, 1): a bag has 2*NAtoms slots, slot NAtoms*t + i being atom i *)
(* of table t; change_table moves the whole composition into one table.    *)
(* Requirement checked on the model by TLC and on the code by trace        *)
(* validation: compositions are additive (Additive), operations returning  *)
(* a new formula leave every existing object unchanged (OperandsUnchanged).*)
(***************************************************************************)
EXTENDS Integers, Sequences, FiniteSets, TLC
CONSTANTS Vars, NAtoms, Bases, Mults, MaxObjs, MaxDepth,
          Tabs      \* {0} or {0, 1}: tables in which formulas are built / into which they are moved
\* dyadic rationals n / 2^e
RECURSIVE Pow2(_)
Pow2(k) == IF k = 0 THEN 1 ELSE 2 * Pow2(k - 1)
Q(n, e) == [n |-> n, e |-> e]
RECURSIVE QNorm(_)
QNorm(x) == IF x.n = 0 THEN Q(0, 0) ELSE IF x.e > 0 /\ x.n % 2 = 0 THEN QNorm(Q(x.n \div 2, x.e - 1)) ELSE x
QMul(x, y) == QNorm(Q(x.n * y.n, x.e + y.e))
QAdd(x, y) == QNorm(IF x.e >= y.e THEN Q(x.n + y.n * Pow2(x.e - y.e), x.e) ELSE Q(x.n * Pow2(y.e - x.e) + y.n, y.e))
QZero == Q(0, 0)
MultVal(m) == CASE m = "0" -> Q(0, 0) [] m = "0.5" -> Q(1, 1) [] m = "1" -> Q(1, 0) [] m = "2" -> Q(2, 0)
                [] m = "3" -> Q(3, 0) [] m = "1.5" -> Q(3, 1) [] m = "0.25" -> Q(1, 2)
NSlots == 2 * NAtoms
EmptyBag == [a \in 1..NSlots |-> QZero]
BagAdd(x, y) == [a \in 1..NSlots |-> QAdd(x[a], y[a])]
BagScale(n, x) == [a \in 1..NSlots |-> QMul(n, x[a])]
AtomOfSlot(s) == ((s - 1) % NAtoms) + 1
\* a home-table bag written in table t; the whole composition moved into table t
InTable(x, t) == IF t = 0 THEN x ELSE [a \in 1..NSlots |-> IF a > NAtoms THEN x[a - NAtoms] ELSE QZero]
MoveTo(x, t) == [a \in 1..NSlots |-> IF (a > NAtoms) = (t = 1) THEN QAdd(x[AtomOfSlot(a)], x[AtomOfSlot(a) + NAtoms]) ELSE QZero]
TabOf(op) == IF "t" \in DOMAIN op THEN op.t ELSE 0
\* base formulas over atom indices 1..7 (the harness maps them to C H O Fe{2+} Fe{3+} O[18] D or to other atoms of the same kinds)
BaseBag(b) ==
  CASE b = "CH4"   -> [EmptyBag EXCEPT ![1] = Q(1, 0), ![2] = Q(4, 0)]
    [] b = "H2O"   -> [EmptyBag EXCEPT ![2] = Q(2, 0), ![3] = Q(1, 0)]
    [] b = "Fe3O4" -> [EmptyBag EXCEPT ![4] = Q(1, 0), ![5] = Q(2, 0), ![3] = Q(4, 0)]
    [] b = "D2O18" -> [EmptyBag EXCEPT ![7] = Q(2, 0), ![6] = Q(1, 0)]
    [] b = "hydrate" -> [EmptyBag EXCEPT ![1] = Q(1, 0), ![3] = Q(9, 0), ![2] = Q(12, 0)]     \* CO3 + 6 H2O, nested
    [] b = "zero"  -> [EmptyBag EXCEPT ![1] = Q(1, 0), ![2] = Q(2, 0)]                       \* C O0 H2: a zero count contributes nothing
    [] b = "half"  -> [EmptyBag EXCEPT ![2] = Q(1, 1), ![3] = Q(3, 1)]                       \* H0.5 O1.5
    [] b = "H"     -> [EmptyBag EXCEPT ![2] = Q(1, 0)]
    [] b = "empty" -> EmptyBag                                                               \* formula(''), formula({}), formula([]): a new empty object each time
Hows == {"str", "atom", "dict", "seq", "gen"}          \* gen: a one-shot iterable (generator, zip)
HowOK(how, b) == how # "atom" \/ b = "H"

\* ---- operations as functions on a state record [pool, obj, nobj] (single source of truth: the actions
\*      below and the trace specification Trace_Formula both use ApplyOp) ------------------------------
None == 0
S0 == [pool |-> [v \in Vars |-> None], obj |-> <<>>, nobj |-> 0]
BoundIn(s, v) == s.pool[v] # None
NewObjIn(s, v, bag) == [pool |-> [s.pool EXCEPT ![v] = s.nobj + 1], obj |-> Append(s.obj, bag), nobj |-> s.nobj + 1]
Enabled(s, op) ==
  CASE op.op = "new"   -> HowOK(op.how, op.b) /\ s.nobj < MaxObjs
    [] op.op = "copy"  -> BoundIn(s, op.w) /\ s.nobj < MaxObjs
    [] op.op = "hill"  -> BoundIn(s, op.a) /\ s.nobj < MaxObjs
    [] op.op = "add"   -> BoundIn(s, op.a) /\ BoundIn(s, op.b) /\ s.nobj < MaxObjs
    [] op.op = "rmul"  -> BoundIn(s, op.a) /\ s.nobj < MaxObjs
    [] op.op = "iadd"  -> BoundIn(s, op.a) /\ BoundIn(s, op.b)
    [] op.op = "alias" -> BoundIn(s, op.w) /\ op.v # op.w
    [] op.op = "chtab" -> BoundIn(s, op.a)
ApplyOp(s, op) ==
  CASE op.op = "new"   -> NewObjIn(s, op.v, InTable(BaseBag(op.b), TabOf(op)))
    [] op.op = "copy"  -> NewObjIn(s, op.v, s.obj[s.pool[op.w]])
    [] op.op = "hill"  -> NewObjIn(s, op.v, s.obj[s.pool[op.a]])
    [] op.op = "add"   -> NewObjIn(s, op.v, BagAdd(s.obj[s.pool[op.a]], s.obj[s.pool[op.b]]))
    [] op.op = "rmul"  -> NewObjIn(s, op.v, BagScale(MultVal(op.n), s.obj[s.pool[op.a]]))
    [] op.op = "iadd"  -> [s EXCEPT !.obj[s.pool[op.a]] = BagAdd(@, s.obj[s.pool[op.b]])]
    [] op.op = "alias" -> [s EXCEPT !.pool[op.v] = s.pool[op.w]]
    [] op.op = "chtab" -> [s EXCEPT !.obj[s.pool[op.a]] = MoveTo(@, op.t)]

VARIABLES pool, obj, nobj, hist
fvars == <<pool, obj, nobj, hist>>
Cur == [pool |-> pool, obj |-> obj, nobj |-> nobj]
Bound(v) == pool[v] # None
FInit == pool = S0.pool /\ obj = S0.obj /\ nobj = S0.nobj /\ hist = <<>>
Do(op) == /\ Enabled(Cur, op)
          /\ LET t == ApplyOp(Cur, op) IN pool' = t.pool /\ obj' = t.obj /\ nobj' = t.nobj
          /\ hist' = Append(hist, op)
Ops == {[op |-> "new", v |-> v, how |-> how, b |-> b, t |-> t] : v \in Vars, how \in Hows, b \in Bases, t \in Tabs}
       \cup {[op |-> "chtab", a |-> a, t |-> t] : a \in Vars, t \in Tabs}
       \cup {[op |-> "copy", v |-> v, w |-> w] : v \in Vars, w \in Vars}
       \cup {[op |-> "alias", v |-> v, w |-> w] : v \in Vars, w \in Vars}
       \cup {[op |-> "hill", v |-> v, a |-> a] : v \in Vars, a \in Vars}
       \cup {[op |-> "add", v |-> v, a |-> a, b |-> b] : v \in Vars, a \in Vars, b \in Vars}
       \cup {[op |-> "rmul", v |-> v, n |-> n, a |-> a] : v \in Vars, n \in Mults, a \in Vars}
       \cup {[op |-> "iadd", a |-> a, b |-> b] : a \in Vars, b \in Vars}
FNext == Len(hist) < MaxDepth /\ \E op \in Ops : Do(op)
FSpec == FInit /\ [][FNext]_fvars

\* ---- properties on the model ---------------------------------------------------
LastOp == hist'[Len(hist')]
OperandsUnchanged ==     \* only += changes an existing object, and only the one its left operand names
  [][\A o \in 1..nobj : (obj'[o] # obj[o]) => (LastOp.op \in {"iadd", "chtab"} /\ o = pool[LastOp.a])]_fvars
\* change_table keeps the composition: the per-atom totals over both tables are unchanged
ChTabKeepsComposition ==
  [][LastOp.op = "chtab" => \A i \in 1..NAtoms : LET o == pool[LastOp.a]
                                                 IN QAdd(obj'[o][i], obj'[o][i + NAtoms]) = QAdd(obj[o][i], obj[o][i + NAtoms])]_fvars
ObjectsNeverVanish == [][nobj' >= nobj /\ \A v \in Vars : Bound(v) => pool'[v] # None]_fvars
NonNegative == \A o \in 1..nobj, a \in 1..NSlots : obj[o][a].n >= 0
=============================================================================
