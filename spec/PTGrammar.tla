----------------------------- MODULE PTGrammar -----------------------------
(***************************************************************************)
(* The documented formula grammar (doc/sphinx/guide/formula_grammar.rst)   *)
(* as a derivation machine, with its denotation.  Property C01 (and the    *)
(* generator for C13 / C19 / C02).                                         *)
(*                                                                         *)
(*   compound :: group (separator group)* density?                         *)
(*   group    :: count element+ | '(' formula ')' count                    *)
(*   element  :: symbol isotope? ion? count?                               *)
(*   separator:: space? '+'? space?          density :: '@' count [n|i]?   *)
(*                                                                         *)
(* A state is a stack of partially built group lists; actions are the      *)
(* productions: StartGroup (count element+ with an optional leading        *)
(* count), AddElement, Open ( '(' ), Close ( ')' count ), Density.  TLC     *)
(* visits every derivation within the bounds; each complete state carries  *)
(* its token string and its denotation (atom placeholder -> count), so it  *)
(* is one implementation test.  Atoms are placeholders $1..$N in first-use *)
(* order (the harness substitutes every element / isotope / ion of the     *)
(* real table, in the string and in the expected composition alike).       *)
(*                                                                         *)
(* Counts are dyadic rationals [n, e] = n / 2^e so that the denotation is  *)
(* exact: a count multiplies everything in its group, repeated atoms add.  *)
(*                                                                         *)
(* Reading rules that make the character string single-valued (the doc's   *)
(* BNF with empty separators is ambiguous; these are the readings text and *)
(* examples agree on): a number directly after an atom is that atom's      *)
(* count; a leading group count needs a non-empty separator (or '(' or the *)
(* start) before it; two element runs are never juxtaposed with an empty   *)
(* separator (they would be one run).                                      *)
(***************************************************************************)
EXTENDS Integers, Sequences, FiniteSets, TLC

CONSTANTS MaxEls,      \* total number of element tokens in a formula
          MaxItems,    \* groups per level
          MaxDepth,    \* nesting of parentheses
          MaxAtoms,    \* distinct atom placeholders
          CountToks,   \* count spellings usable on elements / groups: subset of DOMAIN CountVal
          Seps,        \* separators between groups
          DensToks     \* density tags (strings such as "@2", "@1.5n"), may be empty

\* ---- counts ---------------------------------------------------------------
CountVal == [ c \in {"", "2", "3", "10", "0.5", "1.5", ".25", "3.", "2.0", "0.125", "12"} |->
              CASE c = "" -> [n |-> 1, e |-> 0] [] c = "2" -> [n |-> 2, e |-> 0] [] c = "3" -> [n |-> 3, e |-> 0]
                [] c = "10" -> [n |-> 10, e |-> 0] [] c = "0.5" -> [n |-> 1, e |-> 1] [] c = "1.5" -> [n |-> 3, e |-> 1]
                [] c = ".25" -> [n |-> 1, e |-> 2] [] c = "3." -> [n |-> 3, e |-> 0] [] c = "2.0" -> [n |-> 2, e |-> 0]
                [] c = "0.125" -> [n |-> 1, e |-> 3] [] c = "12" -> [n |-> 12, e |-> 0] ]
RECURSIVE Pow2(_)
Pow2(k) == IF k = 0 THEN 1 ELSE 2 * Pow2(k - 1)
QMul(x, y) == [n |-> x.n * y.n, e |-> x.e + y.e]
QAdd(x, y) == IF x.e >= y.e THEN [n |-> x.n + y.n * Pow2(x.e - y.e), e |-> x.e]
              ELSE [n |-> x.n * Pow2(y.e - x.e) + y.n, e |-> y.e]
QOne == [n |-> 1, e |-> 0]
QZero == [n |-> 0, e |-> 0]

\* ---- AST ------------------------------------------------------------------
\* item = [k |-> "imp", sep, lead, els : Seq([a, c])]   count element+
\*      | [k |-> "exp", sep, cnt, body : Seq(item)]     '(' formula ')' count
RECURSIVE Render(_), RenderEls(_), BagOf(_, _, _), BagEls(_, _, _), NEls(_), Depth(_)
RenderEls(els) == IF els = <<>> THEN <<>>
                  ELSE <<"$" \o ToString(Head(els).a)>> \o (IF Head(els).c = "" THEN <<>> ELSE <<Head(els).c>>)
                       \o RenderEls(Tail(els))
Render(items) ==
  IF items = <<>> THEN <<>>
  ELSE LET it == Head(items)
           me == IF it.k = "imp"
                 THEN (IF it.lead = "" THEN <<>> ELSE <<it.lead>>) \o RenderEls(it.els)
                 ELSE <<"(">> \o Render(it.body) \o <<")">> \o (IF it.cnt = "" THEN <<>> ELSE <<it.cnt>>)
       IN (IF it.sep = "" THEN <<>> ELSE <<it.sep>>) \o me \o Render(Tail(items))
\* denotation: bag as a function placeholder -> dyadic count
BagEls(els, mult, bag) ==
  IF els = <<>> THEN bag
  ELSE LET el == Head(els)
       IN BagEls(Tail(els), mult, [bag EXCEPT ![el.a] = QAdd(@, QMul(mult, CountVal[el.c]))])
BagOf(items, mult, bag) ==
  IF items = <<>> THEN bag
  ELSE LET it == Head(items)
           b2 == IF it.k = "imp" THEN BagEls(it.els, QMul(mult, CountVal[it.lead]), bag)
                 ELSE BagOf(it.body, QMul(mult, CountVal[it.cnt]), bag)
       IN BagOf(Tail(items), mult, b2)
EmptyBag == [a \in 1..MaxAtoms |-> QZero]
Denote(items) == BagOf(items, QOne, EmptyBag)
NEls(items) == IF items = <<>> THEN 0
               ELSE (IF Head(items).k = "imp" THEN Len(Head(items).els) ELSE NEls(Head(items).body)) + NEls(Tail(items))
Depth(items) == IF items = <<>> THEN 0
                ELSE LET d == IF Head(items).k = "imp" THEN 0 ELSE 1 + Depth(Head(items).body)
                         r == Depth(Tail(items))
                     IN IF d > r THEN d ELSE r

\* ---- the derivation machine -------------------------------------------------
VARIABLES stk,     \* stack of frames; frame = [sep (of the enclosing '(' group), items]
          dens     \* "" or the density tag chosen (terminal)
gvars == <<stk, dens>>

Top == stk[Len(stk)]
Last(items) == items[Len(items)]
TotalEls == LET F[i \in 0..Len(stk)] == IF i = 0 THEN 0 ELSE F[i - 1] + NEls(stk[i].items) IN F[Len(stk)]
UsedAtoms == LET RECURSIVE A(_)
                 A(items) == IF items = <<>> THEN {}
                             ELSE (IF Head(items).k = "imp" THEN {Head(items).els[i].a : i \in DOMAIN Head(items).els}
                                   ELSE A(Head(items).body)) \cup A(Tail(items))
             IN UNION {A(stk[i].items) : i \in DOMAIN stk}
OpenRun == Top.items # <<>> /\ Last(Top.items).k = "imp"          \* an element run that can still grow
RunEmpty == OpenRun /\ Last(Top.items).els = <<>>
\* separator rules (see header): which separators may precede a new item in the current frame
SepOK(sep, isImp, lead) ==
  IF Top.items = <<>> THEN sep = ""
  ELSE IF sep # "" THEN TRUE
  ELSE IF isImp THEN Last(Top.items).k = "exp" /\ lead = ""        \* ")" count, then an element run without leading count
  ELSE TRUE                                                        \* anything, then "("

GInit == stk = << [sep |-> "", items |-> <<>>] >> /\ dens = ""

StartGroup(sep, lead) ==
  /\ dens = "" /\ ~RunEmpty /\ Len(Top.items) < MaxItems /\ TotalEls < MaxEls
  /\ SepOK(sep, TRUE, lead)
  /\ stk' = [stk EXCEPT ![Len(stk)].items = Append(@, [k |-> "imp", sep |-> sep, lead |-> lead, els |-> <<>>])]
  /\ UNCHANGED dens
AddElement(a, c) ==
  /\ dens = "" /\ OpenRun /\ TotalEls < MaxEls
  /\ a \in UsedAtoms \cup {Cardinality(UsedAtoms) + 1} /\ a <= MaxAtoms      \* placeholders in first-use order
  /\ stk' = [stk EXCEPT ![Len(stk)].items[Len(Top.items)].els = Append(@, [a |-> a, c |-> c])]
  /\ UNCHANGED dens
Open(sep) ==
  /\ dens = "" /\ ~RunEmpty /\ Len(stk) <= MaxDepth /\ Len(Top.items) < MaxItems /\ TotalEls < MaxEls
  /\ SepOK(sep, FALSE, "")
  /\ stk' = Append(stk, [sep |-> sep, items |-> <<>>])
  /\ UNCHANGED dens
Close(c) ==
  /\ dens = "" /\ Len(stk) > 1 /\ Top.items # <<>> /\ ~RunEmpty
  /\ stk' = [SubSeq(stk, 1, Len(stk) - 1) EXCEPT ![Len(stk) - 1].items =
                 Append(@, [k |-> "exp", sep |-> Top.sep, cnt |-> c, body |-> Top.items])]
  /\ UNCHANGED dens
Complete == Len(stk) = 1 /\ Top.items # <<>> /\ ~RunEmpty
Density(d) == /\ dens = "" /\ Complete /\ dens' = d /\ UNCHANGED stk

GNext == \/ \E sep \in Seps \cup {""}, lead \in CountToks : StartGroup(sep, lead)
         \/ \E a \in 1..MaxAtoms, c \in CountToks : AddElement(a, c)
         \/ \E sep \in Seps \cup {""} : Open(sep)
         \/ \E c \in CountToks : Close(c)
         \/ \E d \in DensToks : Density(d)
GSpec == GInit /\ [][GNext]_gvars

\* ---- spec-level laws of the denotation (checked by TLC on every complete state) ----
Tokens == Render(stk[1].items) \o (IF dens = "" THEN <<>> ELSE <<dens>>)
Bag == Denote(stk[1].items)
\* a count multiplies everything in its group: wrapping the whole formula in "( ... )c" multiplies every count by c
CountsDistribute ==
  Complete => \A c \in CountToks :
     LET w == << [k |-> "exp", sep |-> "", cnt |-> c, body |-> stk[1].items] >>
     IN \A a \in 1..MaxAtoms : Denote(w)[a] = QMul(Bag[a], CountVal[c]) \/
            (Denote(w)[a].n * Pow2(QMul(Bag[a], CountVal[c]).e) = QMul(Bag[a], CountVal[c]).n * Pow2(Denote(w)[a].e))
\* repeated atoms add: the denotation of a concatenation is the sum of the denotations
RepeatsAdd ==
  Complete => \A i \in 1..Len(stk[1].items) :
     LET l == SubSeq(stk[1].items, 1, i)  r == SubSeq(stk[1].items, i + 1, Len(stk[1].items))
     IN \A a \in 1..MaxAtoms :
          LET s == QAdd(Denote(l)[a], Denote(r)[a])
          IN s.n * Pow2(Bag[a].e) = Bag[a].n * Pow2(s.e)
NonEmptyDenotation == Complete => \E a \in 1..MaxAtoms : Bag[a].n > 0
=============================================================================
