------------------------------- MODULE LexTest -------------------------------
(* Differential test of PTLex against the harness's regular-expression lexer  *)
(* (formexec.lex, which only filters generated inputs): line 1 is a header,    *)
(* each further line is {id, chars, toks}; Lex(chars) must be exactly toks.                            *)
EXTENDS Json, IOUtils, TLCExt, Sequences, Integers, TLC, PTLex
Log == ndJsonDeserialize(IOEnv.TRACE_FILE)
VARIABLE l
Init == l = 2
Next == /\ l <= Len(Log)
        /\ (Lex(Log[l].chars) # Log[l].toks => PrintT("@@" \o ToJson([id |-> Log[l].id, clause |-> "LexAgrees", got |-> Lex(Log[l].chars)])))
        /\ l' = l + 1
TraceSpec == Init /\ [][Next]_l
Done == TLCGet("stats").diameter = Len(Log) /\ PrintT("@@" \o ToJson([summary |-> TRUE, events |-> Len(Log) - 1]))
=============================================================================
