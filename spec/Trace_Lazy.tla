----------------------------- MODULE Trace_Lazy -----------------------------
(***************************************************************************)
(* Trace validation for C09 / C10.  The log (ndjson, IOEnv.TRACE_FILE) has *)
(* one record per line:                                                    *)
(*   line 1      kind "canon": what a fresh interpreter serves after the   *)
(*               canonical order (representative outcomes rep["a.p"],      *)
(*               per-group digests of the whole public table, calculator   *)
(*               results, hasattr results)                                 *)
(*   lines 2..   kind "hist": one history executed in its own fresh        *)
(*               interpreter: events, per step the outcome and alpha(real),*)
(*               at the end the outcomes / digests of every table.         *)
(* Each history is checked twice:                                          *)
(*  (1) conformance with the implementation-shaped model PTLazy: the model *)
(*      is run along the events; alpha(real) and the outcome class must    *)
(*      equal the model's at every step (else DRIFT at that step);         *)
(*  (2) the requirement PTServe (what C09/C10 say, independent of the      *)
(*      mechanism): every value served by the public table is the          *)
(*      canonical one; a private table serves canonical values for every   *)
(*      group it has initialised and not overridden itself; no init()      *)
(*      raises; foreign mutations are never visible.                       *)
(* One TLC state per history; one verdict line per history.                *)
(***************************************************************************)
EXTENDS PTLazy, Json, IOUtils, TLCExt, SequencesExt
Log == ndJsonDeserialize(IOEnv.TRACE_FILE)
CanonRec == Log[1]
VARIABLE l

Key2(a, p) == a \o "." \o p
Key3(T, a, p) == T \o "." \o a \o "." \o p
Proj(k) == IF k \in {"defN", "defU"} THEN "plain" ELSE k

\* ---- (1) conformance with PTLazy -------------------------------------------
AlphaOK(s, al) ==
  /\ \A c \in Classes, p \in RegProps : Proj(s.cls[<<c, p>>]) = al.cls[Key2(c, p)]
  /\ {Key3(x[1], x[2], x[3]) : x \in s.inst} = ToSet(al.inst)
  /\ \A T \in DOMAIN al.tp : T \in Tables /\ s.tp[T] = ToSet(al.tp[T])
StepWhy(s, ev, step) ==
  LET t == Apply(s, ev)  al == step.alpha
  IN IF \E c \in Classes, p \in RegProps : Proj(t.cls[<<c, p>>]) # al.cls[Key2(c, p)] THEN "cls"
     ELSE IF {Key3(x[1], x[2], x[3]) : x \in t.inst} # ToSet(al.inst) THEN "inst"
     ELSE IF \E T \in DOMAIN al.tp : T \notin Tables \/ t.tp[T] # ToSet(al.tp[T]) THEN "tp"
     ELSE IF ev.op \in {"read", "probe", "init", "reload"} /\ Outcome(s, ev) # step.out.cls THEN "out"
     ELSE "ok"
RECURSIVE DriftAt(_, _, _)
DriftAt(s, h, i) == IF i > Len(h.events) THEN [step |-> 0, why |-> "ok"]
                    ELSE LET w == StepWhy(s, h.events[i], h.steps[i])
                         IN IF w # "ok" THEN [step |-> i, why |-> w]
                            ELSE DriftAt(Apply(s, h.events[i]), h, i + 1)

\* ---- (2) requirement PTServe ------------------------------------------------
\* requirement-level bookkeeping over the events before step i
RECURSIVE Overridden(_, _), Inited(_, _)
Overridden(evs, i) ==                    \* <<T, group>> pairs that table T changed itself (assign / mutate)
  IF i = 0 THEN {}
  ELSE Overridden(evs, i - 1) \cup
       (IF evs[i].op \in {"assign", "mutate"} THEN {<<evs[i].T, GroupOf(evs[i].p)>>} ELSE {})
Inited(evs, i) ==                        \* <<T, group>> pairs initialised explicitly on a private table
  IF i = 0 THEN {}
  ELSE Inited(evs, i - 1) \cup (IF evs[i].op = "init" THEN {<<evs[i].T, evs[i].g>>} ELSE {})
Bound(T, g, evs, i) ==                   \* does the property bind what T serves for group g at step i?
  IF T = "pub" THEN TRUE
  ELSE /\ <<T, g>> \notin Overridden(evs, i)
       /\ (<<T, g>> \in Inited(evs, i) \/ g = "xray")
SameObs(o, c) == o.cls = c.cls /\ o.dig = c.dig
StepViol(h, i) ==
  LET ev == h.events[i]  out == h.steps[i].out
  IN CASE ev.op = "read" ->
            IF Bound(ev.T, GroupOf(ev.p), h.events, i - 1) /\ ~SameObs(out, CanonRec.rep[Key2(ev.a, ev.p)])
            THEN {[step |-> i, clause |-> "ServedIsCanonical", got |-> out.cls,
                   want |-> CanonRec.rep[Key2(ev.a, ev.p)].cls]} ELSE {}
       [] ev.op = "probe" ->
            IF Bound(ev.T, GroupOf(ev.p), h.events, i - 1)
               /\ out.cls # (IF CanonRec.rep[Key2(ev.a, ev.p)].cls = "E" THEN "F" ELSE "T")
            THEN {[step |-> i, clause |-> "ProbeIsCanonical", got |-> out.cls, want |-> "-"]} ELSE {}
       [] ev.op = "calc" ->
            IF ~SameObs(out, CanonRec.calc[ev.c])
            THEN {[step |-> i, clause |-> "CalcIsCanonical", got |-> out.cls, want |-> CanonRec.calc[ev.c].cls]} ELSE {}
       [] ev.op \in {"init", "reload", "create", "import", "assign"} ->
            IF out.cls # "ok" THEN {[step |-> i, clause |-> "EventRaised", got |-> out.cls, want |-> "ok"]} ELSE {}
       [] ev.op \in {"parse", "pickle"} ->
            IF out.cls # "T" THEN {[step |-> i, clause |-> "AtomsBelongToTable", got |-> out.cls, want |-> "T"]} ELSE {}
       [] OTHER -> {}
FinalViol(h) ==
  LET n == Len(h.events)
      tabs == DOMAIN h.final.rep
  IN  {[step |-> n + 1, clause |-> "FinalServedIsCanonical", got |-> Key3(T, a, p), want |-> CanonRec.rep[Key2(a, p)].cls] :
          <<T, a, p>> \in {x \in tabs \X Atoms \X Props :
                             /\ Bound(x[1], GroupOf(x[3]), h.events, n)
                             /\ ~SameObs(h.final.rep[x[1]][Key2(x[2], x[3])], CanonRec.rep[Key2(x[2], x[3])])}}
      \cup
      {[step |-> n + 1, clause |-> "FinalDigestIsCanonical", got |-> T \o "." \o g, want |-> "-"] :
          <<T, g>> \in {x \in (DOMAIN h.final.digest) \X AllGroups :
                          /\ x[2] \in DOMAIN h.final.digest[x[1]]
                          /\ Bound(x[1], x[2], h.events, n)
                          /\ h.final.digest[x[1]][x[2]] # CanonRec.digest[x[2]]}}
\* mutable per-atom objects (dict, list, array, record) reachable from two different tables
HeapViol(h) ==
  IF "heap" \notin DOMAIN h.final THEN {}
  ELSE LET tabs == DOMAIN h.final.heap
       IN {[step |-> Len(h.events) + 1, clause |-> "NoSharedMutable", got |-> x[1] \o "/" \o x[2] \o ":" \o x[3], want |-> "-"] :
             x \in {y \in tabs \X tabs \X {"crystal_structure", "magnetic_ff", "magnetic_ff.item", "neutron",
                                              "neutron_activation", "neutron_activation.item", "neutron.nsf_table", "_xray", "_xray.table"} :
                      /\ y[1] # y[2]
                      /\ y[3] \in DOMAIN h.final.heap[y[1]] /\ y[3] \in DOMAIN h.final.heap[y[2]]
                      /\ ToSet(h.final.heap[y[1]][y[3]]) \cap ToSet(h.final.heap[y[2]][y[3]]) # {}}}
Viol(h) == HeapViol(h) \cup UNION {StepViol(h, i) : i \in 1..Len(h.events)} \cup FinalViol(h)

TInit == l = 2 /\ st = St0
TNext == /\ l <= Len(Log)
         /\ UNCHANGED st
        /\ PrintT("@@" \o ToJson([tid |-> Log[l].tid, drift |-> DriftAt(St0, Log[l], 1), viol |-> Viol(Log[l])]))
        /\ l' = l + 1
TraceSpec == TInit /\ [][TNext]_<<l, st>>
Done == TLCGet("stats").diameter = Len(Log)
=============================================================================
