------------------------------ MODULE Trace_Xray ------------------------------
(***************************************************************************)
(* C05: X-ray scattering factors, SLD and refraction.                      *)
(*  nffrow  one row "E(eV) f1 f2" of an element's .nff table (-9999. =     *)
(*          missing); the reader keeps the table in keV                    *)
(*  sf      element.xray.scattering_factors(energy) -> linear interpolation*)
(*          of the table, NaN outside the tabulated range                  *)
(*  sld     xray_sld / Xray.sld / index_of_refraction of a compound with   *)
(*          the per-atom factors served                                    *)
(*  rel     energy = wavelength, density linearity, isotope independence   *)
(*  refl    mirror reflectivity within [0, 1]                              *)
(*  f0      analytic form factor: Z - charge at Q = 0, NaN beyond 24 pi    *)
(***************************************************************************)
EXTENDS PTReaders, Json, IOUtils, TLCExt, TLC
Log == ndJsonDeserialize(IOEnv.TRACE_FILE)
Hdr == Log[1]
VARIABLES l, tab
vars == <<l, tab>>
Init == l = 2 /\ tab = <<>>
HC == Hdr.hc                      \* E(keV) * lambda(A) = h c 1e7, verified by kcheck
Num(x) == x.k = "num"
RECURSIVE Bracket(_, _, _)
Bracket(t, E, i) == IF i >= Len(t) - 1 THEN i ELSE IF Le(E, t[i + 1].E) THEN i ELSE Bracket(t, E, i + 1)
Lin(a, b, fa, fb, E) == Add(fa, MulP(Div(Sub(E, a), Sub(b, a), 14), Sub(fb, fa), 14))
\* expected (f1, f2) at energy E (keV): [k |-> "nan"] outside the table, [k |-> "skip"] where the documentation is silent
F12(t, E) ==
  IF Lt(E, t[1].E) \/ Gt(E, t[Len(t)].E) THEN [f1 |-> [k |-> "nan"], f2 |-> [k |-> "nan"]]
  ELSE LET i == Bracket(t, E, 1)
           a == t[i]  b == t[i + 1]
           dup == Eq(a.E, b.E) \/ (i > 1 /\ Eq(t[i - 1].E, a.E) /\ Eq(E, a.E)) \/ (i + 2 <= Len(t) /\ Eq(t[i + 2].E, b.E) /\ Eq(E, b.E))
       IN IF dup THEN [f1 |-> [k |-> "skip"], f2 |-> [k |-> "skip"]]             \* exactly on a duplicated edge energy
          ELSE [f1 |-> IF IsNone(a.f1) /\ IsNone(b.f1) THEN [k |-> "nan"]
                       \* strictly between a flagged (-9999) row and a tabulated one f1 is not tabulated: NaN, never a number
                       \* made from the flag; exactly on the tabulated node the documentation is silent
                       ELSE IF IsNone(a.f1) \/ IsNone(b.f1) THEN (IF Lt(a.E, E) /\ Lt(E, b.E) THEN [k |-> "nan"] ELSE [k |-> "skip"])
                       ELSE [k |-> "num", v |-> Lin(a.E, b.E, a.f1, b.f1, E)],
                f2 |-> [k |-> "num", v |-> Lin(a.E, b.E, a.f2, b.f2, E)]]
Agree(got, want, scale) == want.k = "skip" \/ (want.k = "nan" /\ got.k = "nan")
                           \/ (want.k = "num" /\ got.k = "num" /\ CloseScaled(got.v, want.v, -10, scale))
EOK(e) == IF "lam" \in DOMAIN e THEN Close(Mul(e.E, e.lam), HC, -13) ELSE TRUE
SfClause(e) ==
  IF ~EOK(e) THEN "WavelengthWitness"
  ELSE IF tab = <<>> THEN (IF e.f1.k = "none" /\ e.f2.k = "none" THEN "ok" ELSE "NoTableGivesNone")
  ELSE LET w == F12(tab, e.E)
           sc == IF w.f1.k = "num" THEN Add(Abs(w.f1.v), One) ELSE One
       IN IF ~Agree(e.f1, w.f1, sc) THEN "F1IsTableInterpolation"
          ELSE IF ~Agree(e.f2, w.f2, IF w.f2.k = "num" THEN Add(Abs(w.f2.v), Sci(1, -6)) ELSE One) THEN "F2IsTableInterpolation"
          ELSE "ok"
\* compound: parts [n, m, f1, f2] with the factors the library served at that energy
RECURSIVE SumF(_, _)
SumF(ps, fld) == IF ps = <<>> THEN Zero ELSE Add(MulP(Head(ps).n, Head(ps)[fld], 14), SumF(Tail(ps), fld))
RECURSIVE SumAbsF(_, _)
SumAbsF(ps, fld) == IF ps = <<>> THEN Zero ELSE Add(MulP(Head(ps).n, Abs(Head(ps)[fld]), 14), SumAbsF(Tail(ps), fld))
SldClause(e) ==
  LET M == SumF(e.ps, "m")
      c == MulP(MulP(MulP(Hdr.electron_radius, Hdr.avogadro, 14), e.rho, 14), Sci(1, -8), 14)       \* r_e N_A rho 1e-8
  IN IF ~EOK(e) THEN "WavelengthWitness"
     \* a factor that is not tabulated at this energy (NaN) makes the sum NaN: never a finite number without that term
     ELSE IF e.anynan THEN (IF e.rho_re.k = "nan" \/ e.rho_im.k = "nan" THEN "ok" ELSE "SldIsNaNWhereAFactorIsMissing")
     ELSE IF ~Num(e.rho_re) \/ ~Num(e.rho_im) THEN "SldIsNumber"
     ELSE IF ~CloseScaled(MulP(e.rho_re.v, M, 14), MulP(c, SumF(e.ps, "f1"), 14), -10, MulP(c, SumAbsF(e.ps, "f1"), 14)) THEN "SldReal"
     ELSE IF ~Close(MulP(e.rho_im.v, M, 14), MulP(c, SumF(e.ps, "f2"), 14), -10) THEN "SldImag"
     ELSE IF "n_re" \notin DOMAIN e THEN "ok"
     ELSE LET l2 == Sq(e.lam)  twopi == MulInt(Pi, 2)
          \* n = 1 - delta with delta as small as 1e-10: compared on n itself (1 - n recovered from a double has lost
          \* most of its digits), delta = lambda^2 rho 1e-6 / (2 pi)
          IN IF ~Close(e.n_re.v, Sub(One, Div(MulP(MulP(l2, e.rho_re.v, 14), Sci(1, -6), 14), twopi, 14)), -14) THEN "RefractionReal"
             ELSE IF ~Close(MulP(Neg(e.n_im.v), twopi, 14), MulP(MulP(l2, e.rho_im.v, 14), Sci(1, -6), 14), -10) THEN "RefractionImag"
             ELSE "ok"
Same2(a, b, tol) == (a.re.k = b.re.k) /\ (a.im.k = b.im.k) /\ (Num(a.re) => Close(a.re.v, b.re.v, tol)) /\ (Num(a.im) => Close(a.im.v, b.im.v, tol))
RelClause(e) ==
  IF e.rel = "energy" THEN (IF Same2(e.a, e.b, -11) THEN "ok" ELSE "EnergyEqualsWavelength")
  ELSE IF e.rel = "vector" THEN (IF Same2(e.a, e.b, -13) THEN "ok" ELSE "VectorIsPointwise")
  ELSE IF e.rel = "isotope" THEN (IF Same2(e.a, e.b, -11) THEN "ok" ELSE "IsotopeIndependence")
  ELSE IF e.rel = "density" THEN
       (IF Num(e.a.re) /\ Num(e.b.re) /\ Close(Mul(e.a.re.v, e.k), e.b.re.v, -11) /\ Close(Mul(e.a.im.v, e.k), e.b.im.v, -11) THEN "ok"
        ELSE IF ~Num(e.a.re) /\ ~Num(e.b.re) THEN "ok" ELSE "LinearInDensity")
  ELSE "UnknownRelation"
ReflClause(e) == IF \A i \in DOMAIN e.r : e.r[i].k = "nan" \/ (Num(e.r[i]) /\ e.r[i].v.s >= 0 /\ Le(e.r[i].v, Add(One, Sci(1, -12)))) THEN "ok"
                 ELSE "ReflectivityInUnitInterval"
F0Clause(e) ==
  IF e.at0.k # "num" \/ Gt(Abs(Sub(e.at0.v, FromInt(e.z - e.q))), Sci(5, -2)) THEN "F0AtZeroIsElectronCount"
  ELSE IF e.beyond.k # "nan" THEN "F0BeyondRangeIsNaN"
  ELSE IF e.inside.k # "num" \/ e.inside.v.s <= 0 \/ Gt(e.inside.v, Add(FromInt(e.z - e.q), One)) THEN "F0InsideRangeIsFinite"
  ELSE IF "qkept" \in DOMAIN e /\ (~e.qkept \/ e.again # e.inside) THEN "F0LeavesItsArgumentAlone"       \* second call on the same array = first
  ELSE IF "edge" \in DOMAIN e /\ e.edge.k # "num" THEN "F0AtRangeEndIsFinite"       \* Q = 24 pi is inside the closed range
  ELSE "ok"
KClause == IF Close(HC, Mul(Mul(Hdr.consts.plancks_constant, Hdr.consts.speed_of_light), Sci(1, 7)), -13) THEN "ok" ELSE "HCWitness"
Emit(id, c) == c # "ok" => PrintT("@@" \o ToJson([id |-> id, clause |-> c]))
Step ==
  /\ l <= Len(Log)
  /\ l' = l + 1
  /\ LET e == Log[l]
     IN CASE e.ev = "nffrow" ->
               /\ tab' = Append(tab, [E |-> MulP(e.E, Sci(1, -3), 14), f1 |-> IF e.f1.k = "missing" THEN NoVal ELSE e.f1.v, f2 |-> e.f2])
               /\ Emit(e.id, IF tab = <<>> \/ Le(tab[Len(tab)].E, MulP(e.E, Sci(1, -3), 14)) THEN "ok" ELSE "TableEnergiesIncrease")
          [] e.ev = "sf" -> Emit(e.id, SfClause(e)) /\ UNCHANGED tab
          [] e.ev = "sld" -> Emit(e.id, SldClause(e)) /\ UNCHANGED tab
          [] e.ev = "rel" -> Emit(e.id, RelClause(e)) /\ UNCHANGED tab
          [] e.ev = "refl" -> Emit(e.id, ReflClause(e)) /\ UNCHANGED tab
          [] e.ev = "f0" -> Emit(e.id, F0Clause(e)) /\ UNCHANGED tab
          [] e.ev = "kcheck" -> Emit("kcheck", KClause) /\ UNCHANGED tab
TraceSpec == Init /\ [][Step]_vars
Done == TLCGet("stats").diameter = Len(Log) /\ PrintT("@@" \o ToJson([summary |-> TRUE, events |-> Len(Log) - 1]))
=============================================================================
