------------------------------ MODULE Trace_Act ------------------------------
(***************************************************************************)
(* Trace validation for C14 (activation) and C15 (decay_time).             *)
(*  act    one (row, conditions) evaluation of activation.activity         *)
(*  sample Sample.calculate_activation: per-product sums over isotopes     *)
(*  decay  Sample.decay_time(target) with the activities it was given      *)
(***************************************************************************)
EXTENDS PTActivation, Json, IOUtils, TLCExt, TLC
Log == ndJsonDeserialize(IOEnv.TRACE_FILE)
Hdr == Log[1]
VARIABLE l
Num(x) == x.k = "num"
ActClause(e) ==
  LET r == e.row  c == e.cond
  IN IF Omitted(r, c) THEN (IF e.out.k = "omitted" THEN "ok" ELSE "FastReactionOmittedWithoutFastFlux")
     ELSE IF e.out.k = "omitted" THEN "ReactionReported"
     ELSE IF e.out.k = "exc" THEN "ActivityComputes"
     ELSE LET s == Setup(r, c)
              a0 == ActAt(r, s, c.exposure)
          IN IF ~a0.ok THEN "ok"
             ELSE IF \E i \in DOMAIN e.out.v : ~Num(e.out.v[i]) THEN "ActivityIsNumber"
             ELSE IF \E i \in DOMAIN e.out.v : e.out.v[i].v.s < 0 THEN "ActivityNonNegative"
             ELSE IF a0.A.s < 0 THEN "SpecSolutionNegative"
             ELSE IF \E i \in DOMAIN e.out.v : ~ActClose(e.out.v[i].v, M(a0.A, RestFactor(s, c.rests[i]))) THEN "ActivityIsChainSolution:" \o r.reaction
             ELSE "ok"
\* relations between evaluations of the same row (all "act" checks apply to each; these are the cross-checks)
RelClause(e) ==
  IF e.rel = "mass" THEN (IF \A i \in DOMAIN e.a : Num(e.a[i]) /\ Num(e.b[i]) /\
                                 (Close(Mul(e.a[i].v, e.k), e.b[i].v, -12) \/ (Lt(Abs(e.a[i].v), Tiny) /\ Lt(Abs(e.b[i].v), Tiny)))   \* denormals
                          THEN "ok" ELSE "ProportionalToMass")
  ELSE IF e.rel = "rest" THEN
       (IF Num(e.a0) /\ Num(e.at) /\ ActClose(e.at.v, M(e.a0.v, E(Neg(M(D(Ln2, e.Thalf), e.t))))) THEN "ok" ELSE "RestIsHalfLifeDecay")
  ELSE IF e.rel = "exposure" THEN      \* A(t2) >= A(t1) * exp(-s1 (t2 - t1)), with 1e-9 slack; a bound below 1e-300 is
                                       \* below what a double can hold (the activity has underflowed to 0, correctly)
       (IF Num(e.a1) /\ Num(e.a2) /\ Ge(Add(Mul(e.a2.v, Add(One, Sci(1, -9))), Sci(1, -300)), M(e.a1.v, E(Neg(M(e.s1, Sub(e.t2, e.t1))))))
        THEN "ok" ELSE "ExposureMonotoneUpToDepletion")
  ELSE "UnknownRelation"
\* natural element: the sample's activity of a product = sum over isotopes of activity(isotope, mass * fraction * abundance / 100)
SampleClause(e) ==
  IF "exc" \in DOMAIN e THEN "SampleComputes"
  ELSE IF "missing" \in DOMAIN e /\ e.missing # 0 THEN "SampleHasEveryProduct"
  ELSE IF \E i \in DOMAIN e.products :
            LET p == e.products[i]
                RECURSIVE S(_)
                S(k) == IF k = 0 THEN Zero ELSE Add(p.parts[k], S(k - 1))
            IN ~ActClose(p.total, S(Len(p.parts))) THEN "SampleIsSumOverIsotopes"
  ELSE IF \E i \in DOMAIN e.masses : ~Close(Mul(e.masses[i].got, FromInt(100)), Mul(Mul(e.mass, e.masses[i].frac), e.masses[i].abundance), -12)
       THEN "IsotopeMassIsFractionTimesAbundance"
  ELSE "ok"
\* ---- decay_time (C15) ----------------------------------------------------------------------
\* total activity t hours after removal from the beam: sum A_i(0) 2^(-t/T_i)
RECURSIVE TotalAt(_, _)
TotalAt(ps, t) == IF ps = <<>> THEN Zero ELSE Add(M(Head(ps).A0, E(Neg(M(D(Ln2, Head(ps).Thalf), t)))), TotalAt(Tail(ps), t))
DecayClause(e) ==
  LET tot0 == TotalAt(e.products, Zero)
      below == Le(tot0, e.target)
      \* clearly below: not only by the rounding between two evaluations of the activity at removal (see below)
      clearlyBelow == Lt(Add(tot0, Sci(2, -10)), Mul(e.target, Sub(One, Sci(1, -9))))
  IN IF e.res.k = "exc" THEN (IF e.res.exc = "RuntimeError" /\ ~clearlyBelow THEN "ok" ELSE "DecayTimeRaises:" \o e.res.exc)
     ELSE IF ~Num(e.res) \/ e.res.v.s < 0 THEN "DecayTimeIsNonNegativeNumber"
     \* zero exactly when the activity at removal is at or below the target: up to rounding between the two calculations
     \* of the activity at removal (1e-9 relative) and up to 2e-10 uCi, below which activities are nothing (and the root
     \* finder's own absolute tolerance); not up to the 0.1 % of the accuracy clause
     ELSE IF Le(e.res.v, Zero) THEN (IF Le(tot0, Add(Mul(e.target, Add(One, Sci(1, -9))), Sci(2, -10))) THEN "ok" ELSE "ZeroOnlyWhenAlreadyBelowTarget")
     ELSE IF clearlyBelow THEN "ZeroWhenAlreadyBelowTarget"
     ELSE IF Gt(Abs(Sub(TotalAt(e.products, e.res.v), e.target)), Mul(e.target, Sci(1001, -6))) THEN "ActivityAtReturnedTimeIsTarget"
     ELSE "ok"
\* same sample, different rest-time lists: same classification; both answers satisfy the post-condition (checked by DecayClause)
\* (a time below 1e-6 h counts as zero: at target = activity at removal the two may differ by rounding)
Zeroish(x) == Lt(x.v, Sci(1, -6))
SameClass(a, b) == (a.k = "exc") = (b.k = "exc") /\ (Num(a) /\ Num(b) => (Zeroish(a) = Zeroish(b)))
\* (at target = activity at removal rounding decides between "already there" and a solve that may fail: no verdict there)
RestListClause(e) == IF ("boundary" \in DOMAIN e /\ e.boundary) \/ SameClass(e.a, e.b) THEN "ok" ELSE "IndependentOfRestTimeList"
Clause(e) == CASE e.ev = "act" -> ActClause(e) [] e.ev = "rel" -> RelClause(e) [] e.ev = "sample" -> SampleClause(e)
               [] e.ev = "decay" -> DecayClause(e) [] e.ev = "restlist" -> RestListClause(e)
Init == l = 2
Next == /\ l <= Len(Log)
        /\ LET c == Clause(Log[l]) IN (c # "ok" => PrintT("@@" \o ToJson([id |-> Log[l].id, clause |-> c])))
        /\ l' = l + 1
TraceSpec == Init /\ [][Next]_l
Done == TLCGet("stats").diameter = Len(Log) /\ PrintT("@@" \o ToJson([summary |-> TRUE, events |-> Len(Log) - 1]))
=============================================================================
