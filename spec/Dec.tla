------------------------------- MODULE Dec -------------------------------
(***************************************************************************)
(* Arbitrary precision decimal arithmetic in pure TLA+ (TLC has 32-bit     *)
(* integers and no reals).  A number is a record                           *)
(*      [s |-> -1|0|1, m |-> <<limbs, little endian, base 10^4>>, e |-> k] *)
(* denoting  s * (SUM m[i] * B^(i-1)) * B^e  with B = 10^4.                 *)
(* Zero is [s |-> 0, m |-> <<>>, e |-> 0].  All exact operations keep the  *)
(* representation normalised (no zero limb at either end).                 *)
(*                                                                         *)
(* Exact:   Neg Abs Add Sub Mul MulInt Cmp Half                            *)
(* Rounded: Trunc(x,P) MulP DivInt Recip Div Exp (P limbs, truncation)     *)
(* Tests:   Close(x,y,r)  |x-y| <= 10^r * max(|x|,|y|)   (r <= 0)          *)
(*          CloseScaled(x,y,r,scale)  |x-y| <= 10^r * |scale|              *)
(* Every column sum of a product stays below 2^31 as long as both operands *)
(* have at most 21 limbs; MulP truncates its operands first.               *)
(***************************************************************************)
EXTENDS Integers, Sequences

B == 10000
Zero == [s |-> 0, m |-> <<>>, e |-> 0]
IsDec(x) == /\ x.s \in {-1, 0, 1}

Max2(a, b) == IF a >= b THEN a ELSE b
Min2(a, b) == IF a <= b THEN a ELSE b

\* ---- normalisation ------------------------------------------------------
RECURSIVE StripHigh(_)
StripHigh(m) == IF m = <<>> THEN m
                ELSE IF m[Len(m)] = 0 THEN StripHigh(SubSeq(m, 1, Len(m) - 1)) ELSE m
RECURSIVE LowZeros(_, _)
LowZeros(m, i) == IF i > Len(m) THEN i - 1 ELSE IF m[i] = 0 THEN LowZeros(m, i + 1) ELSE i - 1
Norm(s, m, e) ==
  LET h == StripHigh(m)
  IN IF h = <<>> \/ s = 0 THEN Zero
     ELSE LET z == LowZeros(h, 1)
          IN [s |-> s, m |-> SubSeq(h, z + 1, Len(h)), e |-> e + z]

\* carries: c is a sequence of naturals (< 2^31), result has limbs < B
RECURSIVE CarryFix(_, _, _, _)
CarryFix(c, i, carry, acc) ==
  IF i > Len(c)
  THEN IF carry = 0 THEN acc ELSE CarryFix(c, i, carry \div B, Append(acc, carry % B))
  ELSE LET v == c[i] + carry IN CarryFix(c, i + 1, v \div B, Append(acc, v % B))

\* ---- small integers -----------------------------------------------------
RECURSIVE NatLimbs(_)
NatLimbs(n) == IF n = 0 THEN <<>> ELSE <<n % B>> \o NatLimbs(n \div B)
FromInt(n) == IF n = 0 THEN Zero
              ELSE IF n > 0 THEN Norm(1, NatLimbs(n), 0) ELSE Norm(-1, NatLimbs(-n), 0)
One == FromInt(1)
Two == FromInt(2)
\* n * 10^k for small n and any integer k
Pow10Small(k) == CASE k % 4 = 0 -> 1 [] k % 4 = 1 -> 10 [] k % 4 = 2 -> 100 [] k % 4 = 3 -> 1000
Sci(n, k) == LET q == (k - (k % 4)) \div 4
                 base == FromInt(n)
             IN IF n = 0 THEN Zero
                ELSE LET p == Pow10Small(k)
                         sc == Norm(base.s, CarryFix([i \in 1..Len(base.m) |-> base.m[i] * p], 1, 0, <<>>), base.e)
                     IN [sc EXCEPT !.e = @ + q]

\* ---- sign, comparison ---------------------------------------------------
Neg(x) == [x EXCEPT !.s = -x.s]
Abs(x) == [x EXCEPT !.s = IF x.s = 0 THEN 0 ELSE 1]
Top(x) == Len(x.m) + x.e                    \* position above the most significant limb
Limb(x, p) == LET i == p - x.e IN IF i >= 1 /\ i <= Len(x.m) THEN x.m[i] ELSE 0   \* limb at absolute position p (1-based above e)
RECURSIVE CmpFrom(_, _, _, _)
CmpFrom(x, y, p, lo) == IF p <= lo THEN 0
                        ELSE LET a == Limb(x, p) b == Limb(y, p)
                             IN IF a > b THEN 1 ELSE IF a < b THEN -1 ELSE CmpFrom(x, y, p - 1, lo)
CmpMag(x, y) ==
  IF x.s = 0 THEN (IF y.s = 0 THEN 0 ELSE -1)
  ELSE IF y.s = 0 THEN 1
  ELSE IF Top(x) > Top(y) THEN 1 ELSE IF Top(x) < Top(y) THEN -1
  ELSE CmpFrom(x, y, Top(x), Min2(x.e, y.e))
Cmp(x, y) == IF x.s # y.s THEN (IF x.s > y.s THEN 1 ELSE -1)
             ELSE IF x.s = 0 THEN 0
             ELSE x.s * CmpMag(x, y)
Lt(x, y) == Cmp(x, y) < 0
Le(x, y) == Cmp(x, y) <= 0
Gt(x, y) == Cmp(x, y) > 0
Ge(x, y) == Cmp(x, y) >= 0
Eq(x, y) == Cmp(x, y) = 0
IsZero(x) == x.s = 0
MaxD(x, y) == IF Ge(x, y) THEN x ELSE y
MinD(x, y) == IF Le(x, y) THEN x ELSE y

\* ---- addition -----------------------------------------------------------
AddMag(x, y) ==                                  \* |x| + |y|
  LET lo == Min2(x.e, y.e)  hi == Max2(Top(x), Top(y))
      c == [i \in 1..(hi - lo) |-> Limb(x, lo + i) + Limb(y, lo + i)]
  IN Norm(1, CarryFix(c, 1, 0, <<>>), lo)
RECURSIVE BorrowFix(_, _, _, _)
BorrowFix(c, i, borrow, acc) ==                  \* c[i] in (-B, B)
  IF i > Len(c) THEN acc
  ELSE LET v == c[i] - borrow
       IN IF v < 0 THEN BorrowFix(c, i + 1, 1, Append(acc, v + B))
                   ELSE BorrowFix(c, i + 1, 0, Append(acc, v))
SubMag(x, y) ==                                  \* |x| - |y|, requires |x| >= |y|
  LET lo == Min2(x.e, y.e)  hi == Max2(Top(x), Top(y))
      c == [i \in 1..(hi - lo) |-> Limb(x, lo + i) - Limb(y, lo + i)]
  IN Norm(1, BorrowFix(c, 1, 0, <<>>), lo)
Add(x, y) ==
  IF x.s = 0 THEN y ELSE IF y.s = 0 THEN x
  ELSE IF x.s = y.s THEN [AddMag(x, y) EXCEPT !.s = x.s]
  ELSE LET c == CmpMag(x, y)
       IN IF c = 0 THEN Zero
          ELSE IF c > 0 THEN [SubMag(x, y) EXCEPT !.s = x.s]
          ELSE [SubMag(y, x) EXCEPT !.s = y.s]
Sub(x, y) == Add(x, Neg(y))

\* ---- truncation ---------------------------------------------------------
Trunc(x, P) == IF Len(x.m) <= P THEN x
               ELSE LET d == Len(x.m) - P IN Norm(x.s, SubSeq(x.m, d + 1, Len(x.m)), x.e + d)

\* ---- multiplication -----------------------------------------------------
RECURSIVE ColSum(_, _, _, _, _)
ColSum(a, b, k, i, hi) == IF i > hi THEN 0 ELSE a[i] * b[k + 1 - i] + ColSum(a, b, k, i + 1, hi)
Mul(x, y) ==                                     \* exact; both operands <= 21 limbs
  IF x.s = 0 \/ y.s = 0 THEN Zero
  ELSE LET a == x.m  b == y.m
           c == [k \in 1..(Len(a) + Len(b) - 1) |->
                    ColSum(a, b, k, Max2(1, k + 1 - Len(b)), Min2(k, Len(a)))]
       IN Norm(x.s * y.s, CarryFix(c, 1, 0, <<>>), x.e + y.e)
MulP(x, y, P) == Trunc(Mul(Trunc(x, P), Trunc(y, P)), P)
MulInt(x, n) == Mul(x, FromInt(n))
Sq(x) == Mul(x, x)
Half(x) == LET h == Mul(x, FromInt(5000)) IN IF h.s = 0 THEN h ELSE [h EXCEPT !.e = @ - 1]   \* exact

\* ---- division by a small positive integer (1 <= n < 2^31 / B), P result limbs
RECURSIVE DivLimbs(_, _, _, _, _)
DivLimbs(m, n, i, rem, acc) ==                   \* i runs from the top limb down; acc is built big endian
  IF i < 1 THEN <<acc, rem>>
  ELSE LET v == rem * B + m[i] IN DivLimbs(m, n, i - 1, v % n, Append(acc, v \div n))
RECURSIVE ExtraLimbs(_, _, _, _)
ExtraLimbs(n, rem, k, acc) == IF k = 0 \/ rem = 0 THEN acc
                              ELSE LET v == rem * B IN ExtraLimbs(n, v % n, k - 1, Append(acc, v \div n))
Reverse(s) == [i \in 1..Len(s) |-> s[Len(s) + 1 - i]]
DivInt(x, n, P) ==                               \* x / n truncated to about P limbs
  IF x.s = 0 THEN Zero
  ELSE LET r == DivLimbs(x.m, n, Len(x.m), 0, <<>>)
           big == r[1]
           ext == ExtraLimbs(n, r[2], Max2(0, P + 1 - Len(x.m)) + 1, <<>>)
           all == big \o ext
       IN Trunc(Norm(x.s, Reverse(all), x.e - Len(ext)), P)

\* ---- reciprocal and division (Newton), P limbs ---------------------------
RECURSIVE NewtonRecip(_, _, _, _)
NewtonRecip(d, x, P, k) == IF k = 0 THEN x
                           ELSE NewtonRecip(d, MulP(x, Sub(Two, MulP(d, x, P + 2)), P + 2), P, k - 1)
RECURSIVE Log2Ceil(_)
Log2Ceil(n) == IF n <= 1 THEN 0 ELSE 1 + Log2Ceil((n + 1) \div 2)
Recip(d, P) ==                                   \* 1/d, d # 0
  LET top == d.m[Len(d.m)]
      g == (B * B) \div (top + 1)                \* 1/(top+1) scaled by B^2
      x0 == LET r == FromInt(g) IN [r EXCEPT !.e = @ - 2 - (Top(d) - 1)]
      it == Log2Ceil(14 * P) + 2                 \* relative error e -> e^2 from e0 <= 1/2: 2^it > 13.3 bits * P limbs
  IN [Trunc(NewtonRecip(Abs(d), x0, P, it), P) EXCEPT !.s = d.s]
Div(x, y, P) == MulP(x, Recip(y, P + 1), P)

\* ---- exp ----------------------------------------------------------------
RECURSIVE HalveUntilSmall(_, _)
HalveUntilSmall(x, k) ==                         \* returns <<r, k>> with x = r * 2^k and |r| < 1/256 (B^0 limb 0, top limb < 39)
  IF x.s = 0 \/ Top(x) < 0 \/ (Top(x) = 0 /\ x.m[Len(x.m)] < 39) THEN <<x, k>>
  ELSE HalveUntilSmall(Half(x), k + 1)
RECURSIVE TaylorExp(_, _, _, _, _)
TaylorExp(r, term, n, sum, P) ==                 \* sum of r^j/j!, stops when the term drops below B^-(P+1)
  IF term.s = 0 \/ Top(term) < -(P + 1) THEN sum
  ELSE LET t == DivInt(MulP(term, r, P + 2), n, P + 2)
       IN TaylorExp(r, t, n + 1, Add(sum, t), P)
RECURSIVE SquareK(_, _, _)
SquareK(x, k, P) == IF k = 0 THEN x ELSE SquareK(MulP(x, x, P), k - 1, P)
ExpCutoff == FromInt(12000)                      \* exp(-12000) < 10^-5200: treated as 0 below
Exp(x, P) ==
  IF x.s = 0 THEN One
  ELSE IF x.s < 0 /\ Gt(Abs(x), ExpCutoff) THEN Zero
  ELSE LET hk == HalveUntilSmall(Trunc(x, P + 4), 0)
           base == Trunc(TaylorExp(hk[1], One, 1, One, P + 4), P + 4)
       IN Trunc(SquareK(base, hk[2], P + 4), P)
\* 1 - exp(-y) without cancellation for small y >= 0 : -(sum_{j>=1} (-y)^j/j!)
Expm1Neg(y, P) ==                                \* returns 1 - exp(-y), y >= 0
  IF y.s = 0 THEN Zero
  ELSE IF Top(y) < 0 \/ (Top(y) = 0 /\ y.m[Len(y.m)] < 39)
       THEN Neg(Trunc(TaylorExp(Neg(y), One, 1, Zero, P + 4), P))
       ELSE Sub(One, Exp(Neg(y), P + 2))

\* ---- cos (radians), by halving the angle, Taylor series, and the double-angle formula ---------
RECURSIVE TaylorCos(_, _, _, _, _)
TaylorCos(y2, term, j, sum, P) ==                  \* term_j = -term_(j-1) y^2 / ((2j-1)(2j))
  IF term.s = 0 \/ Top(term) < -(P + 1) THEN sum
  ELSE LET t == Neg(DivInt(MulP(term, y2, P + 2), (2 * j - 1) * (2 * j), P + 2))
       IN TaylorCos(y2, t, j + 1, Add(sum, t), P)
RECURSIVE DoubleK(_, _, _)
DoubleK(c, k, P) == IF k = 0 THEN c ELSE DoubleK(Sub(MulInt(MulP(c, c, P), 2), One), k - 1, P)
Cos(x, P) ==
  IF x.s = 0 THEN One
  ELSE LET hk == HalveUntilSmall(Trunc(Abs(x), P + 4), 0)
           base == TaylorCos(MulP(hk[1], hk[1], P + 4), One, 1, One, P + 4)
       IN Trunc(DoubleK(base, hk[2], P + 4), P)

\* ---- tolerant comparison ------------------------------------------------
Tol(r) == Sci(1, r)                              \* 10^r
CloseScaled(x, y, r, scale) == Le(Abs(Sub(x, y)), MulP(Tol(r), Abs(scale), 6))
Close(x, y, r) == \/ Eq(x, y)
                  \/ CloseScaled(x, y, r, MaxD(Abs(x), Abs(y)))

\* ---- constants ----------------------------------------------------------
\* pi = 3.1415 9265 3589 7932 3846 2643 3832 7950 2884 1971 6939 9375 1058 2097 4944
Pi == [s |-> 1, e |-> -15,
       m |-> <<4944, 2097, 1058, 9375, 6939, 1971, 2884, 7950, 3832, 2643, 3846, 7932, 3589, 9265, 1415, 3>>]
\* ln 2 = 0.6931 4718 0559 9453 0941 7232 1214 5817 6568 0755 0013 4360 2552 5412 0680
Ln2 == [s |-> 1, e |-> -15,
        m |-> <<680, 5412, 2552, 4360, 13, 755, 6568, 5817, 1214, 7232, 941, 9453, 559, 4718, 6931>>]
=============================================================================
