#!/venv/bin/python
"""Confirm a property-breaking change and run checks against it.

  mutant.py confirm <patch.diff> <demo.py>           tests pass with the change; demo fails with it, passes without
  mutant.py run <patch.diff> <prop> [<prop> ...]     run ./check <prop> against a scratch worktree with the change applied

Scratch worktrees of /repo are created under /tmp and removed afterwards; /repo itself is never touched.
"""
import os
import shutil
import subprocess
import sys
import tempfile

VERIF = os.path.dirname(os.path.dirname(os.path.abspath(__file__)))
PY = "/venv/bin/python"


def sh(cmd, cwd=None, env=None, timeout=1800):
    p = subprocess.run(cmd, shell=True, cwd=cwd, env=env, stdout=subprocess.PIPE, stderr=subprocess.STDOUT, universal_newlines=True, timeout=timeout)
    return p.returncode, p.stdout


class Worktree(object):
    def __init__(self, patch=None):
        self.dir = tempfile.mkdtemp(prefix="ptv-mut-")
        os.rmdir(self.dir)
        rc, out = sh("git -C /repo worktree add -q --detach %s HEAD" % self.dir)
        if rc:
            raise RuntimeError(out)
        if patch:
            rc, out = sh("git apply %s" % os.path.abspath(patch), cwd=self.dir)
            if rc:      # the tree has moved on since the patch was made: merge against the blobs it names
                rc, out = sh("git apply --3way %s" % os.path.abspath(patch), cwd=self.dir)
            if rc:
                self.close()
                raise RuntimeError("patch does not apply: " + out)

    def env(self):
        e = dict(os.environ)
        e["PYTHONPATH"] = self.dir
        e["PT_REPO"] = self.dir
        e["PYTHONDONTWRITEBYTECODE"] = "1"
        return e

    def close(self):
        sh("git -C /repo worktree remove --force %s" % self.dir)
        shutil.rmtree(self.dir, ignore_errors=True)


def confirm(patch, demo):
    res = {}
    w = Worktree(patch)
    try:
        rc, out = sh("%s -m pytest -q -p no:cacheprovider 2>&1 | tail -3" % PY, cwd=w.dir, env=w.env())
        res["tests_with_change"] = out.strip().splitlines()[-1] if out.strip() else ""
        rc, out = sh("%s %s" % (PY, os.path.abspath(demo)), cwd=w.dir, env=w.env(), timeout=600)
        res["demo_with_change_rc"] = rc
        res["demo_with_change_tail"] = out.strip()[-300:]
    finally:
        w.close()
    w = Worktree(None)
    try:
        rc, out = sh("%s %s" % (PY, os.path.abspath(demo)), cwd=w.dir, env=w.env(), timeout=600)
        res["demo_clean_rc"] = rc
    finally:
        w.close()
    res["confirmed"] = ("42 passed" in res["tests_with_change"]) and res["demo_with_change_rc"] != 0 and res["demo_clean_rc"] == 0
    return res


def run(patch, props, tier="quick", seed=0):
    w = Worktree(patch)
    out = {}
    try:
        for p in props:
            rc, txt = sh("./check %s --tier %s --seed %d 2>&1 | tail -4" % (p, tier, seed), cwd=VERIF, env=w.env(), timeout=3600)
            lines = [l for l in txt.splitlines() if l.startswith(("VIOLATION", "OK ", "MACHINERY", "KNOWN"))]
            first = [l for l in txt.splitlines() if "violation:" in l][:1]
            out[p] = {"verdict": (lines[-1][:160] if lines else txt[-200:]), "first": first[0][:400] if first else ""}
    finally:
        w.close()
    return out


if __name__ == "__main__":
    import json
    if sys.argv[1] == "confirm":
        print(json.dumps(confirm(sys.argv[2], sys.argv[3]), indent=1))
    else:
        print(json.dumps(run(sys.argv[2], sys.argv[3:]), indent=1))
