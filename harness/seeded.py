#!/venv/bin/python
"""Maintain /verif/seeded: property-breaking changes written by independent sub-agents.

  seeded.py import <round-dir> <first-index>   copy <round-dir>/Cxx/out/{mutN.diff,demoN.py,metaN.json} into seeded/Cxx-(first+N-1)
  seeded.py rerun [ids...]                     confirm + run every seeded change against the current checks, rewrite README.md

Scratch worktrees only (harness/mutant.py); /repo itself is never touched.
"""
import json
import os
import shutil
import sys
from concurrent.futures import ThreadPoolExecutor

HERE = os.path.dirname(os.path.abspath(__file__))
VERIF = os.path.dirname(HERE)
SEEDED = os.path.join(VERIF, "seeded")
sys.path.insert(0, HERE)
import mutant  # noqa


def import_round(rounddir, first, notes_path=None, initial_dir=None):
    notes = json.load(open(notes_path)) if notes_path else {}
    for i in range(1, 21):
        p = "C%02d" % i
        out = os.path.join(rounddir, p, "out")
        for n in (1, 2, 3, 4):
            src = os.path.join(out, "mut%d.diff" % n)
            if not os.path.exists(src):
                continue
            if os.path.exists(os.path.join(out, "mut%d.rebased.diff" % n)):
                src = os.path.join(out, "mut%d.rebased.diff" % n)
            sid = "%s-%d" % (p, first + n - 1)
            d = os.path.join(SEEDED, sid)
            os.makedirs(d, exist_ok=True)
            shutil.copy(src, os.path.join(d, "patch.diff"))
            shutil.copy(os.path.join(out, "demo%d.py" % n), os.path.join(d, "demo.py"))
            try:
                m = json.load(open(os.path.join(out, "meta%d.json" % n)))
            except Exception:
                m = {}
            meta = {"property": p, "breaks": m.get("what") or m.get("breaks") or "", "needs": m.get("needs", ""),
                    "origin": "independent sub-agent given only the property text and a scratch worktree",
                    "agent_ran": m.get("ran") or m.get("agent_ran") or []}
            if src.endswith(".rebased.diff"):
                meta["rebased"] = "the agent's patch no longer applied after a later fix: commit touched the same lines; the same change was re-made on HEAD"
            key = "%s-%d" % (p, n)
            missed = None
            if initial_dir and os.path.exists(os.path.join(initial_dir, key + ".json")):
                r = json.load(open(os.path.join(initial_dir, key + ".json")))
                v = (r.get("run", {}).get(p) or {}).get("verdict", "")
                missed = not v.startswith("VIOLATION")
                meta["first_run_verdict"] = v[:120]
            meta["missed_by_first_version_of_the_check"] = bool(missed)
            if missed and key in notes:
                meta["strengthening"] = notes[key]
            json.dump(meta, open(os.path.join(d, "meta.json"), "w"), indent=1)
            print("imported", sid)


def one(sid):
    d = os.path.join(SEEDED, sid)
    meta = json.load(open(os.path.join(d, "meta.json")))
    p = meta["property"]
    try:
        c = mutant.confirm(os.path.join(d, "patch.diff"), os.path.join(d, "demo.py"))
        r = mutant.run(os.path.join(d, "patch.diff"), [p]) if c["confirmed"] else {}
    except Exception as e:
        c, r = {"confirmed": False, "error": repr(e)[:300]}, {}
    meta["confirmed_by"] = ("harness/mutant.py confirm: scratch worktree of /repo HEAD + patch: test suite '%s'; demo exit code with change %s, "
                            "on clean tree %s" % (c.get("tests_with_change", "?")[:9], c.get("demo_with_change_rc"), c.get("demo_clean_rc")))
    meta["confirmed"] = bool(c.get("confirmed"))
    if not c.get("confirmed"):
        meta["confirm_detail"] = c
    v = (r.get(p) or {})
    first = v.get("first", "")
    clause = ""
    if '"clause": "' in first:
        clause = first.split('"clause": "', 1)[1].split('"', 1)[0]
    meta["check_result"] = {"command": "PT_REPO=<scratch worktree with patch> ./check %s --tier quick --seed 0" % p,
                            "verdict": v.get("verdict", "").split(" replay=")[0], "first_violation": first[:600], "clause": clause}
    json.dump(meta, open(os.path.join(d, "meta.json"), "w"), indent=1)
    print(sid, meta["confirmed"], meta["check_result"]["verdict"][:40], clause, flush=True)
    return sid, meta


def rerun(ids):
    all_ids = sorted(x for x in os.listdir(SEEDED) if x[:1] == "C" and os.path.isdir(os.path.join(SEEDED, x)))
    ids = [x for x in all_ids if not ids or x in ids or x.split("-")[0] in ids]
    with ThreadPoolExecutor(max_workers=int(os.environ.get("SEEDED_JOBS", "3"))) as ex:
        list(ex.map(one, ids))
    readme(all_ids)


def readme(all_ids):
    rows = []
    n = det = missed = 0
    for sid in all_ids:
        m = json.load(open(os.path.join(SEEDED, sid, "meta.json")))
        cr = m.get("check_result", {})
        ok = cr.get("verdict", "").startswith("VIOLATION")
        n += 1
        det += ok
        missed += bool(m.get("missed_by_first_version_of_the_check"))
        rows.append("| %s | %s | %s | %s | %s | %s |" % (sid, m["property"], m.get("breaks", "")[:150].replace("|", "/").replace("\n", " "),
                                                      cr.get("clause", ""), "yes" if m.get("missed_by_first_version_of_the_check") else "no",
                                                      "detected" if ok else "NOT DETECTED"))
    text = """# Seeded property-breaking changes

Each directory holds `patch.diff` (applies to /repo HEAD), `demo.py` (fails with the change, passes without) and `meta.json`.
All were written by sub-agents that saw only the text of one property and a scratch worktree (ids -1, -2: round 1; -3..-5: round 2 and -6..-8:
round 3, where the agents were asked for changes that are hard to notice and were told which changes were already known;
-9..-11: round 4, -12..-14: round 5, -15..-17: round 6 and -18..-19: round 7, realistic regressions of the kind refactoring, modernising, performance
work and data updates produce).  Each was confirmed with
`harness/mutant.py confirm` (42 tests pass with the change; the demonstration fails with it and passes on the clean tree) and run against
the property's check with `harness/mutant.py run` (scratch worktree via `PT_REPO`, /repo itself untouched).  `harness/seeded.py rerun`
repeats all of that against the current checks and rewrites this file.

%d changes, %d detected by the current checks.  %d were **not** detected by the version of the check that existed when the change
arrived (column 'missed first'); `meta.json` says how the check was strengthened (inputs / histories / observations added, never a
loosened oracle).

| id | property | change | first failing clause | missed first | now |
|---|---|---|---|---|---|
%s
""" % (n, det, missed, "\n".join(rows))
    open(os.path.join(SEEDED, "README.md"), "w").write(text)


if __name__ == "__main__":
    if sys.argv[1] == "import":
        import_round(sys.argv[2], int(sys.argv[3]), sys.argv[4] if len(sys.argv) > 4 else None, sys.argv[5] if len(sys.argv) > 5 else None)
    elif sys.argv[1] == "readme":
        readme(sorted(x for x in os.listdir(SEEDED) if x[:1] == "C" and os.path.isdir(os.path.join(SEEDED, x))))
    else:
        rerun(sys.argv[2:])
