"""Generic batch trace validation: events -> ndjson shards -> TLC (one verdict line per rejected event)."""
import json
import os
import shutil
import tempfile
from concurrent.futures import ThreadPoolExecutor

from . import tlc


def validate(ctx, module, header, events, nshards=16, timeout=3400, min_per_shard=20, cfg_extra="", name=None, heap=None):
    """Each event must carry a unique "id".  Returns {id: clause} for rejected events.

    The trace spec must define TraceSpec, Done (POSTCONDITION) and print "@@{json}" lines with
    fields id/clause for rejections and a final {"summary":true,"events":n} line."""
    if not events:
        return {}
    nshards = max(1, min(nshards, len(events) // min_per_shard or 1))
    shards = [events[i::nshards] for i in range(nshards)]
    scratch = tempfile.mkdtemp(prefix="ptv-trace-")
    try:
        paths = []
        for i, sh in enumerate(shards):
            p = os.path.join(scratch, "t%d.ndjson" % i)
            with open(p, "w") as f:
                f.write(json.dumps(header) + "\n")
                for e in sh:
                    f.write(json.dumps(e) + "\n")
            paths.append(p)
        cfg = "SPECIFICATION TraceSpec\nPOSTCONDITION Done\n" + cfg_extra

        def one(p):
            return tlc.run(module, cfg, workers=1, env={"TRACE_FILE": p}, timeout=timeout, heap=heap)
        with ThreadPoolExecutor(max_workers=nshards) as ex:
            results = list(ex.map(one, paths))
        rejected = {}
        for sh, r in zip(shards, results):
            ctx.tlc(name or module, r)
            recs = r.printed() if r.rc == 0 else []
            summ = [x for x in recs if isinstance(x, dict) and x.get("summary")]
            if r.rc != 0 or not summ or summ[0]["events"] != len(sh):
                ctx.error("%s failed: %s" % (module, tlc.brief(r.out)))
                continue
            ctx.cov["traces_validated_against_impl"] += 1
            for x in recs:
                if isinstance(x, dict) and not x.get("summary"):
                    rejected[x["id"]] = x
        return rejected
    finally:
        shutil.rmtree(scratch, ignore_errors=True)
