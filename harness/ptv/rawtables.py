"""Raw text of the embedded tables, extracted from the source files of the tree under
test with `ast` (no import of periodictable, no interpretation beyond splitting lines)."""
import ast
import os

from .ctx import REPO

PKG = os.path.join(REPO, "periodictable")
_cache = {}


def module_constants(modname):
    """name -> python literal (strings, lists, dicts of literals) assigned at module level."""
    if modname in _cache:
        return _cache[modname]
    path = os.path.join(PKG, modname + ".py")
    with open(path) as f:
        tree = ast.parse(f.read())
    out = {}
    for node in tree.body:
        if isinstance(node, ast.Assign) and len(node.targets) == 1 and isinstance(node.targets[0], ast.Name):
            try:
                out[node.targets[0].id] = ast.literal_eval(node.value)
            except Exception:
                v = node.value
                if isinstance(v, ast.Call) and isinstance(v.func, ast.Name) and v.func.id == "dict" and not v.args:
                    try:
                        out[node.targets[0].id] = dict((k.arg, ast.literal_eval(k.value)) for k in v.keywords)
                    except Exception:
                        pass
    _cache[modname] = out
    return out


def const(modname, name):
    return module_constants(modname)[name]


def element_base():
    """Z -> (name, symbol, ions sorted) from core.element_base."""
    eb = const("core", "element_base")
    return dict((Z, (v[0], v[1], tuple(sorted(v[2] + v[3])))) for Z, v in eb.items())


def isotope_list():
    """Z -> sorted mass numbers present in the isotope mass table (+ neutron, D, T which are always defined)."""
    isos = {}
    for line in const("mass", "isotope_mass").split("\n"):
        key = line.split(",")[0]
        z, sym, a = key.split("-")
        isos.setdefault(int(z), set()).add(int(a))
    isos.setdefault(0, set()).add(1)
    isos.setdefault(1, set()).update([2, 3])
    return dict((z, sorted(v)) for z, v in isos.items())


def data_file(*parts):
    return os.path.join(PKG, *parts)


# ---- notation lexing (no interpretation: see spec/PTReaders.tla) ---------------------
def lex_unc(field):
    from . import dec
    f = field.strip()
    if f == "":
        return {"k": "empty"}
    if f == "-":
        return {"k": "dash"}
    if f.startswith("["):
        inner = f[1:f.index("]")]
        parts = inner.split(",")
        if len(parts) == 2:
            return {"k": "range", "lo": dec.to_dec(parts[0].strip()), "hi": dec.to_dec(parts[1].strip())}
        return {"k": "nominal", "v": dec.to_dec(parts[0].strip())}
    if "(" in f:
        value = f[:f.index("(")]
        unc = f[f.index("(") + 1:f.index(")")]
        return {"k": "unc", "v": dec.to_dec(value), "ud": dec.to_dec(unc),
                "vdec": len(value.split(".")[1]) if "." in value else 0, "udot": "." in unc, "vdot": "." in value}
    return {"k": "plain", "v": dec.to_dec(f.rstrip("#"))}
