"""Raw text of the embedded tables, extracted from the source files of the tree under
test with `ast` (no import of periodictable, no interpretation beyond splitting lines)."""
import ast
import os

from .ctx import REPO

PKG = os.path.join(REPO, "periodictable")
_cache = {}


def module_constants(modname):
    """name -> python literal (strings, lists, dicts of literals) assigned at module level."""
    if modname in _cache:
        return _cache[modname]
    path = os.path.join(PKG, modname + ".py")
    with open(path) as f:
        tree = ast.parse(f.read())
    out = {}
    for node in tree.body:
        if isinstance(node, ast.Assign) and len(node.targets) == 1 and isinstance(node.targets[0], ast.Name):
            try:
                out[node.targets[0].id] = ast.literal_eval(node.value)
            except Exception:
                pass
    _cache[modname] = out
    return out


def const(modname, name):
    return module_constants(modname)[name]


def element_base():
    """Z -> (name, symbol, ions sorted) from core.element_base."""
    eb = const("core", "element_base")
    return dict((Z, (v[0], v[1], tuple(sorted(v[2] + v[3])))) for Z, v in eb.items())


def isotope_list():
    """Z -> sorted mass numbers present in the isotope mass table (+ neutron, D, T which are always defined)."""
    isos = {}
    for line in const("mass", "isotope_mass").split("\n"):
        key = line.split(",")[0]
        z, sym, a = key.split("-")
        isos.setdefault(int(z), set()).add(int(a))
    isos.setdefault(0, set()).add(1)
    isos.setdefault(1, set()).update([2, 3])
    return dict((z, sorted(v)) for z, v in isos.items())


def data_file(*parts):
    return os.path.join(PKG, *parts)
