"""C07 observations in a forked interpreter."""
from . import dec

FIELDS = ["b_c", "bp", "bm", "coherent", "incoherent", "total", "absorption", "abundance", "b_c_i", "bp_i", "bm_i"]


def serve(arg):
    import periodictable
    from periodictable import core, mass, density, nsf
    tabs = {"public": periodictable.elements}
    variant = arg.get("variant", 0)
    pub = periodictable.elements
    # how the neutron data of this interpreter was first touched
    try:
        if variant == 1:
            nsf.init(pub)                          # explicit init
        elif variant == 2:
            _ = pub.Fe[56].nuclear_spin            # through the other property of the same loader
        elif variant == 3:
            _ = pub.Fe.ion[2].neutron              # through an ion
    except Exception as e:
        # a tabulated value that cannot be read as the first thing an interpreter does is a value not served
        return [{"ev": "firsttouch", "id": "firsttouch:%d" % variant, "variant": variant,
                 "exc": "%s: %s" % (type(e).__name__, str(e)[:200])}]
    def private():
        t = core.PeriodicTable("T1")
        mass.init(t)
        density.init(t)
        nsf.init(t)
        return t
    late = variant in (4, 5)        # the private table is made only after the public one has been read
    if arg.get("private") and not late:
        tabs["T1"] = private()
    if variant in (1, 2, 3):
        # ... and then an ion, an isotope ion and a probe before the table is read
        _ = (pub.Fe.ion[2].neutron, pub.Ni[58].ion[2].neutron, hasattr(pub.Co.ion[2], "neutron"))
    out = []
    order = sorted(tabs) if not late else ["public"] + (["T1"] if arg.get("private") else [])
    for T in order:
        if T not in tabs:
            tabs[T] = private()
        t = tabs[T]
        for z in arg["zs"]:
            el = t[z]
            atoms = [(el, 0)] + [(iso, iso.isotope) for iso in el]
            if variant in (4, 5):
                # the first touch of neutron data in this interpreter is the read (or a hasattr probe) of an isotope of the
                # first element asked about: isotopes first, the element last
                atoms = atoms[1:] + atoms[:1]
                if variant == 5 and len(atoms) > 1:
                    hasattr(atoms[0][0], "neutron")
            for at, a in atoms:
                ev = {"ev": "serve", "id": "serve:%s:%d:%d" % (T, z, a), "T": T, "z": z, "a": a}
                try:
                    n = at.neutron
                    ev["has_sld"] = bool(n.has_sld())
                    ev["has_nd"] = n._number_density is not None
                    ev["f"] = dict((f, dec.enc(getattr(n, f, None))) for f in FIELDS)
                    ev["edep"] = bool(n.is_energy_dependent)
                    try:
                        sp = at.nuclear_spin if a else None
                    except AttributeError:
                        sp = None
                    ev["spin"] = sp if sp is not None else "<none>"
                    bcc = getattr(n, "b_c_complex", None)
                    ev["bcc"] = {"re": dec.enc(bcc.real), "im": dec.enc(bcc.imag)} if bcc is not None else {"re": {"k": "none"}, "im": {"k": "none"}}
                except Exception as e:
                    ev["exc"] = "%s: %s" % (type(e).__name__, str(e)[:80])
                out.append(ev)
    return out


def nodes(arg):
    """Every node of every energy-dependent table, public + private."""
    import periodictable
    from periodictable import core, mass, density, nsf, nsf_tables
    tabs = {"public": periodictable.elements}
    t = core.PeriodicTable("T1")
    mass.init(t)
    density.init(t)
    nsf.init(t)
    tabs["T1"] = t
    out = []
    for T, t in sorted(tabs.items()):
        entries = list(nsf_tables.ENERGY_DEPENDENT_TABLES.items()) + [(("Lu", None), nsf_tables.ENERGY_DEPENDENT_TABLES[("Lu", 176)])]
        for (sym, iso), rows in entries:
            el = getattr(t, sym)
            at = el if iso is None else el[iso]
            lumix = (sym == "Lu" and iso is None)
            # every second table is asked with one vector holding all its node wavelengths in a shuffled order
            import random
            import numpy as np
            order = list(range(len(rows)))
            random.Random(len(rows) * 31 + len(sym)).shuffle(order)
            vec = None
            if (len(rows) + len(sym) + (iso or 0)) % 2 == 0 and len(rows) >= 3:
                try:
                    lams = np.array([float(nsf.neutron_wavelength(rows[j][0] * 1000.0)) for j in order])
                    vb, vs = at.neutron.scattering_by_wavelength(lams)
                    vec = dict((j, (vb[k], vs[k] if np.ndim(vs) else vs)) for k, j in enumerate(order))
                except Exception:
                    vec = None
            for i, row in enumerate(rows):
                E, re, im = row[0], row[1], row[2]
                ev = {"ev": "enode", "id": "enode:%s:%s:%s:%d" % (T, sym, iso, i), "T": T, "kind": "lumix" if lumix else "table",
                      "E": dec.to_dec(repr(E)), "re": dec.to_dec(repr(re)), "im": dec.to_dec(repr(im))}
                try:
                    lam = float(nsf.neutron_wavelength(E * 1000.0))
                    b, sig = at.neutron.scattering_by_wavelength(lam) if vec is None else vec[i]
                    ev["lam"] = dec.enc(lam)
                    ev["vector"] = vec is not None
                    ev["got_re"], ev["got_im"] = dec.enc(complex(b).real), dec.enc(complex(b).imag)
                    ev["sigma"] = dec.enc(float(sig))
                    if lumix:
                        b175 = t.Lu[175].neutron.b_c_complex
                        ev["bc175_re"], ev["bc175_im"] = dec.to_dec(b175.real), dec.to_dec(b175.imag)
                        ev["ab175"], ev["ab176"] = dec.to_dec(t.Lu[175].abundance), dec.to_dec(t.Lu[176].abundance)
                except Exception as e:
                    ev["exc"] = "%s: %s" % (type(e).__name__, str(e)[:80])
                out.append(ev)
    return out
