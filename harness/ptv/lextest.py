"""Differential test of the TLA+ lexer (spec/PTLex.tla) against the harness's regular-expression lexer.

The verdicts of the code -> spec legs of C01 / C13 come from PTLex (the specification reads the characters); the harness's
own lexer (formexec.lex) only filters generated inputs.  This test keeps the two from drifting apart: seeded strings
(valid formulas, token-level edits of them, random character soup over the notation's alphabet) must be cut into the
same tokens by both.  A disagreement is a machinery failure, not a verdict about periodictable.
"""
import json, os, random, shutil, sys, tempfile
sys.path.insert(0, os.path.dirname(os.path.dirname(os.path.abspath(__file__))))
from ptv import tlc, formexec

BIG = 2000000000
BASE = ["H2O", "Ca[40]{2+}(SO4)2.5", "2H2O+3NaCl@2.16n", ".5Fe 0.25Ni@7.9i", "D{+}T[3]{-}", "Fe[56]{3+}2(OH)3@.5", "(H2O)@0.",
        "@1.n", "1.Fe", "Fe1.", "0.5L0.5Lu[179]", "  H 2 O\t+ +", "C12345678901234567890.12345H[12345678901]{1234567890-}",
        "Co{+}Co{-}Co{2-}@10.", "é H", "[0]{0+}{+2}", "@", "@.", ".", "0", "00.5", "007", "@05", "@0", "1.2.3", "..", "{}",
        "[]", "[1", "{1+", "{+", "H[123456789]{999999999+}", "H[1234567890]", "Uuo", "He₂", "H 2"]
ALPHABET = "HhCcaONnFfei0123456789..()[]{}+-@@ \t \x00é%"


def norm(toks):
    out = []
    for t in toks:
        t = dict(t)
        if t["t"] == "bad":
            t = {"t": "bad"}
        elif t["t"] == "iso" and t["n"] >= 10 ** 9:
            t["n"] = BIG
        elif t["t"] == "ion" and abs(t["q"]) >= 10 ** 9:
            t["q"] = BIG if t["q"] > 0 else -BIG
        out.append(t)
    return out


def strings(seed, n):
    rng = random.Random(seed)
    strs = list(BASE)
    for _ in range(n):
        if rng.random() < 0.5:
            s = list(rng.choice(BASE))
            for _ in range(rng.randint(1, 4)):
                k = rng.randrange(len(s) + 1)
                op = rng.random()
                if op < 0.4:
                    s.insert(k, rng.choice(ALPHABET))
                elif op < 0.7 and s:
                    s.pop(min(k, len(s) - 1))
                elif s:
                    s[min(k, len(s) - 1)] = rng.choice(ALPHABET)
            strs.append("".join(s))
        else:
            strs.append("".join(rng.choice(ALPHABET) for _ in range(rng.randint(0, 14))))
    return strs


SMALL = "He2.0()[]{}+-@ n"


def all_strings(n, alphabet=SMALL):
    """every string of length <= n over the alphabet"""
    out = [""]
    layer = [""]
    for _ in range(n):
        layer = [s + c for s in layer for c in alphabet]
        out += layer
    return out


def compare_sharded(strs, shards=16):
    from concurrent.futures import ThreadPoolExecutor
    parts = [strs[i::shards] for i in range(shards)]
    with ThreadPoolExecutor(max_workers=shards) as ex:
        res = list(ex.map(compare, [p for p in parts if p]))
    return [r for r, b in res], [x for r, b in res for x in b]


def compare(strs):
    """-> (TLCResult, [(string, python tokens, spec tokens)]) ; raises tlc.TLCError if TLC itself failed."""
    d = tempfile.mkdtemp(prefix="ptv-lex-")
    try:
        p = os.path.join(d, "t.ndjson")
        with open(p, "w") as f:
            f.write(json.dumps({"hdr": 1}) + "\n")
            for i, s in enumerate(strs):
                f.write(json.dumps({"id": i, "chars": [ord(c) for c in s], "toks": norm(formexec.lex(s))}) + "\n")
        r = tlc.run("LexTest", "SPECIFICATION TraceSpec\nPOSTCONDITION Done\n", workers=1, env={"TRACE_FILE": p})
        recs = r.printed() if r.rc == 0 else []
        summ = [x for x in recs if isinstance(x, dict) and x.get("summary")]
        if r.rc != 0 or not summ or summ[0]["events"] != len(strs):
            raise tlc.TLCError("LexTest failed: " + tlc.brief(r.out))
        bad = [(strs[x["id"]], norm(formexec.lex(strs[x["id"]])), x["got"]) for x in recs if isinstance(x, dict) and not x.get("summary")]
        return r, bad
    finally:
        shutil.rmtree(d, ignore_errors=True)


def main():
    seed = int(os.environ.get("VERIF_SEED", "0"))
    n = int(sys.argv[1]) if len(sys.argv) > 1 else 4
    strs = strings(seed, 6000) + all_strings(n)        # seeded strings + every string of length <= n over a 16-character alphabet
    rs, bad = compare_sharded(strs)
    for s, a, b in bad[:10]:
        print("LEX MISMATCH %r\n  harness %s\n  PTLex   %s" % (s, a, b))
    print("lextest: %d strings (all of length <= %d over %r included), %d disagreements" % (len(strs), n, SMALL, len(bad)))
    return 1 if bad else 0


if __name__ == "__main__":
    sys.exit(main())
