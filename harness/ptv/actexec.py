"""C14 / C15 observations in a forked interpreter."""
from . import dec


def raw_rows():
    """activation.dat rows as the reference reader sees them: (Z, A) -> list of row dicts in file order."""
    import os
    from . import rawtables
    path = rawtables.data_file("activation.dat")
    rows = {}
    order = []
    for n, line in enumerate(open(path, "r")):
        c = line.split("\t")
        if c[0].strip() in ("", "xx"):
            continue
        c = [x[1:-1] if x.startswith('"') else x for x in c]
        num = lambda s: dec.to_dec(s.strip()) if s.strip() else dec.to_dec(0)
        r = {"line": n + 1, "Z": int(c[2]), "A": int(c[4]), "daughter": c[7], "reaction": c[12], "fast": c[13] == "y",
             "thermalXS": num(c[14]), "resonance": num(c[16]), "Thalf_hrs": num(c[17]), "Thalf_parent": num(c[19]),
             "thermalXS_parent": num(c[20]), "resonance_parent": num(c[21]), "abundance": num(c[6])}
        rows.setdefault((r["Z"], r["A"]), []).append(r)
        order.append(r)
    return rows, order


def _env(c):
    from periodictable import activation
    if c.get("late"):
        # an environment object that is re-used: built for other conditions, then its attributes are assigned
        env = activation.ActivationEnvironment(fluence=1e5, Cd_ratio=(70.0 if c["cd"] < 1 else 0.0), fast_ratio=(0.0 if c["fast_ratio"] else 50.0))
        env.fluence, env.Cd_ratio, env.fast_ratio = c["fluence"], c["cd"], c["fast_ratio"]
        return env
    return activation.ActivationEnvironment(fluence=c["fluence"], Cd_ratio=c["cd"], fast_ratio=c["fast_ratio"])


def _cond(c):
    return {"mass": dec.to_dec(c["mass"]), "fluence": dec.to_dec(c["fluence"]), "cd": dec.to_dec(c["cd"]),
            "fast_ratio": dec.to_dec(c["fast_ratio"]), "exposure": dec.to_dec(c["exposure"]), "rests": [dec.to_dec(x) for x in c["rests"]]}


def _rowrec(r):
    return dict((k, r[k]) for k in ("reaction", "fast", "thermalXS", "resonance", "Thalf_hrs", "Thalf_parent", "thermalXS_parent",
                                    "resonance_parent", "A"))


def observe(arg):
    import periodictable as P
    from periodictable import activation
    rows, order = raw_rows()
    out = []
    for t in arg["items"]:
        try:
            k = t["kind"]
            if k == "init_first":
                # the first touch of activation data in this interpreter is an explicit init of the public table
                activation.init(P.elements)
            elif k == "act":
                Z, A = t["iso"]
                iso = P.elements[Z][A]
                c = t["cond"]
                if t.get("edit_reload"):
                    # the owner edited this isotope's records, then restored the table the documented way
                    for ai in iso.neutron_activation:
                        ai.thermalXS = ai.thermalXS * 3 + 1
                        ai.Thalf_hrs = ai.Thalf_hrs * 0.5
                    activation.init(P.elements, reload=True)
                    iso = P.elements[Z][A]
                target = iso
                if t.get("via_ion") and iso.ions:
                    target = iso.ion[iso.ions[0]]          # an ion activates like its atom
                try:
                    res = activation.activity(target, c["mass"], _env(c), c["exposure"], c["rests"])
                    exc = None
                except Exception as e:
                    res, exc = None, type(e).__name__
                acts = iso.neutron_activation
                rr = rows[(Z, A)]
                if len(acts) != len(rr):
                    out.append({"ev": "harness_exc", "id": t["id"], "exc": "row count mismatch for %s-%s" % (Z, A)})
                    continue
                for j, (ai, r) in enumerate(zip(acts, rr)):
                    ev = {"ev": "act", "id": "%s#%d" % (t["id"], j), "row": _rowrec(r), "cond": _cond(c), "line": r["line"]}
                    if exc:
                        ev["out"] = {"k": "exc", "exc": exc}
                    elif ai not in res:
                        ev["out"] = {"k": "omitted"}
                    else:
                        ev["out"] = {"k": "list", "v": [dec.enc(x) for x in res[ai]]}
                    out.append(ev)
                    if res and ai in res and t.get("rel"):
                        out += _relations(t, iso, ai, r, c, res[ai], j)
            elif k == "sample":
                out.append(_sample(t))
            elif k == "decay":
                out += _decay(t)
        except Exception as e:
            import traceback
            out.append({"ev": "harness_exc", "id": t["id"], "exc": "%s: %s" % (type(e).__name__, str(e)[:150]), "tb": traceback.format_exc()[-300:]})
    return out


def _relations(t, iso, ai, r, c, base, j):
    from periodictable import activation
    evs = []
    kk = 7.5
    try:
        b = activation.activity(iso, c["mass"] * kk, _env(c), c["exposure"], c["rests"])[ai]
        evs.append({"ev": "rel", "id": "%s#%d:mass" % (t["id"], j), "rel": "mass", "k": dec.to_dec(kk),
                    "a": [dec.enc(x) for x in base], "b": [dec.enc(x) for x in b]})
        trest = 3.5 * float(dec.to_decimal(r["Thalf_hrs"])) if float(dec.to_decimal(r["Thalf_hrs"])) < 1e6 else 1000.0
        two = activation.activity(iso, c["mass"], _env(c), c["exposure"], [0, trest])[ai]
        evs.append({"ev": "rel", "id": "%s#%d:rest" % (t["id"], j), "rel": "rest", "a0": dec.enc(two[0]), "at": dec.enc(two[1]),
                    "t": dec.to_dec(trest), "Thalf": r["Thalf_hrs"]})
        t2 = c["exposure"] * 3.0
        a2 = activation.activity(iso, c["mass"], _env(c), t2, [0])[ai]
        a1 = activation.activity(iso, c["mass"], _env(c), c["exposure"], [0])[ai]
        env = _env(c)
        sigma = ai.thermalXS + env.epithermal_reduction_factor * ai.resonance
        flux = env.fluence / env.fast_ratio if ai.fast else env.fluence
        if ai.reaction not in ("b",):
            evs.append({"ev": "rel", "id": "%s#%d:exposure" % (t["id"], j), "rel": "exposure", "a1": dec.enc(a1[0]), "a2": dec.enc(a2[0]),
                        "t1": dec.to_dec(c["exposure"]), "t2": dec.to_dec(t2), "s1": dec.to_dec(flux * sigma * 3600e-24)})
    except Exception as e:
        evs.append({"ev": "harness_exc", "id": "%s#%d:rel" % (t["id"], j), "exc": "%s: %s" % (type(e).__name__, str(e)[:100])})
    return evs


def _sample(t):
    import periodictable as P
    from periodictable import activation, core
    c = t["cond"]
    f = P.formula(t["formula"])
    s = activation.Sample(f, c["mass"])
    ev = {"ev": "sample", "id": t["id"], "mass": dec.to_dec(c["mass"])}
    akw = {}
    abund = lambda iso: iso.abundance
    if t.get("abundance") == "IAEA1987":          # the other abundance table the module offers (percent, 0 for isotopes without rows)
        akw["abundance"] = activation.IAEA1987_isotopic_abundance
        abund = activation.IAEA1987_isotopic_abundance
    try:
        s.calculate_activation(_env(c), exposure=c["exposure"], rest_times=c["rests"], **akw)
    except Exception as e:
        ev["exc"] = "%s: %s" % (type(e).__name__, str(e)[:100])
        return ev
    # recompute the parts: one activity() call per isotope with the mass the documentation prescribes
    parts = {}
    masses = []
    for el, frac in f.mass_fraction.items():
        base = el.element if core.ision(el) else el          # an ion activates like its atom
        isos = [base] if core.isisotope(base) else [base[i] for i in base.isotopes]
        for iso in isos:
            ab = 100.0 if core.isisotope(base) else abund(iso)
            m = c["mass"] * frac * ab * 0.01
            if not m:
                continue
            masses.append({"got": dec.to_dec(m), "frac": dec.to_dec(frac), "abundance": dec.to_dec(ab)})
            for ai, vals in activation.activity(iso, m, _env(c), c["exposure"], c["rests"]).items():
                parts.setdefault(ai, []).append(vals)
    # one record per (product, rest time): the sample's activity at the caller's j-th rest time
    ev["products"] = [{"total": dec.to_dec(s.activity[ai][j]), "parts": [dec.to_dec(v[j]) for v in parts.get(ai, [])]}
                      for ai in s.activity for j in range(len(c["rests"]))]
    ev["missing"] = sum(1 for ai in parts if ai not in s.activity)
    ev["masses"] = masses[:40]
    return ev


def _decay(t):
    import periodictable as P
    from periodictable import activation
    c = t["cond"]
    f = P.formula(t["formula"])
    evs = []
    if t.get("edit_thalf"):
        # the owner of the table corrects some half-lives (records are plain attribute holders)
        from periodictable import core
        for el in f.atoms:
            base = el.element if core.ision(el) else el
            for iso in ([base] if core.isisotope(base) else [base[i] for i in base.isotopes]):
                for ai in getattr(iso, "neutron_activation", []):
                    ai.Thalf_hrs = ai.Thalf_hrs * t["edit_thalf"]
    akw = {}
    if t.get("abundance") == "IAEA1987":          # the other abundance table the module offers
        akw["abundance"] = activation.IAEA1987_isotopic_abundance
    ref = activation.Sample(f, c["mass"])
    ref.calculate_activation(_env(c), exposure=c["exposure"], rest_times=[0], **akw)
    products = [{"A0": dec.to_dec(v[0]), "Thalf": dec.to_dec(ai.Thalf_hrs)} for ai, v in ref.activity.items()]
    total0 = sum(v[0] for v in ref.activity.values())
    results = {}
    for li, rests in enumerate(t["restlists"]):
        s = activation.Sample(f, c["mass"])
        if t.get("reuse"):
            # the Sample object has a history: activated under other conditions and queried, then activated again
            s.calculate_activation(_env(c), exposure=c["exposure"] * t["reuse"], rest_times=rests, **akw)
            try:
                s.decay_time(total0 * 0.5 if total0 > 0 else 1.0)
            except Exception:
                pass
        s.calculate_activation(_env(c), exposure=c["exposure"], rest_times=rests, **akw)
        for ti, frac in enumerate(t["targets"]):
            target = total0 * frac
            if target <= 0:
                continue
            try:
                r = dec.enc(s.decay_time(target))
            except Exception as e:
                r = {"k": "exc", "exc": type(e).__name__}
            results[(li, ti)] = r
            evs.append({"ev": "decay", "id": "%s#%d:%d" % (t["id"], li, ti), "products": products, "target": dec.to_dec(target), "res": r,
                        "rests": rests, "frac": frac})
    for ti in range(len(t["targets"])):
        for li in range(1, len(t["restlists"])):
            if (0, ti) in results and (li, ti) in results:
                evs.append({"ev": "restlist", "id": "%s#rl%d:%d" % (t["id"], li, ti), "a": results[(0, ti)], "b": results[(li, ti)],
                            "boundary": abs(t["targets"][ti] - 1.0) < 1e-6})
    return evs
