"""C18 observations in a forked interpreter."""
import os
import tempfile
from . import dec
from .formexec import key


def bag(f):
    return [{"key": list(key(a)), "n": dec.to_dec(c)} for a, c in f.atoms.items()]


def mol_rec(m):
    return {"atoms": bag(m.labile_formula), "natatoms": bag(m.natural_formula), "V": dec.to_dec(m.cell_volume), "charge": dec.to_dec(m.charge),
            "mass": dec.to_dec(m.mass), "Dmass": dec.to_dec(m.Dmass), "density": dec.enc(m.labile_formula.density),
            "labile_mass": dec.to_dec(m.labile_formula.mass)}


def observe(arg):
    import periodictable as P
    from periodictable import fasta
    out = []
    for t in arg["items"]:
        try:
            k = t["kind"]
            if k == "seq":
                s, typ = t["s"], t["type"]
                ev = {"ev": "seq", "id": t["id"], "type": typ, "chars": list(s)}
                try:
                    q = fasta.Sequence("x", s, type=typ)
                    ev["seq"] = mol_rec(q)
                    used = set(s.split("*", 1)[0].replace(" ", ""))
                    ev["res"] = dict((c, mol_rec(fasta.CODE_TABLES[typ][c])) for c in used)
                    if t.get("prefix"):
                        # the prefix route is asked twice; the caller changes the first answer in place in between
                        first = P.formula("%s:%s" % (typ, s))
                        first += P.formula("H[1]2O")
                        first.density = 1.234
                        ev["prefix"] = bag(P.formula("%s:%s" % (typ, s)))
                        if len(s) % 2:          # the same through a private table
                            from .formexec import _tab
                            ev["prefix"] = bag(P.formula("%s:%s" % (typ, s), table=_tab("T1")))
                except Exception as e:
                    ev["exc"] = "%s: %s" % (type(e).__name__, str(e)[:100])
                out.append(ev)
            elif k == "avg":
                typ, code = t["type"], t["code"]
                tab = fasta.CODE_TABLES[typ]
                out.append({"ev": "avg", "id": t["id"], "type": typ, "code": code,
                            "res": dict((c, mol_rec(tab[c])) for c in tab)})
            elif k == "perm":
                a = fasta.Sequence("a", t["a"], type=t["type"])
                b = fasta.Sequence("b", t["b"], type=t["type"])
                out.append({"ev": "perm", "id": t["id"], "a": mol_rec(a), "b": mol_rec(b)})
        except Exception as e:
            import traceback
            out.append({"ev": "harness_exc", "id": t["id"], "exc": "%s: %s" % (type(e).__name__, str(e)[:150]), "tb": traceback.format_exc()[-300:]})
    return out


def read_files(arg):
    """Write each generated file (list of lines) to disk and read it back with the library's readers."""
    from periodictable import fasta
    out = []
    d = tempfile.mkdtemp(prefix="ptv-fasta-")
    try:
        for it in arg["items"]:
            ext = it.get("ext", ".faa")
            stem = ["f%s", "NC_%s.3", "rel-1.2.seq%s", ".hidden%s"][hash(str(it["id"])) % 4 if it.get("load") else 0] % it["id"]
            sub = os.path.join(d, "v1.2") if it.get("load") and len(str(it["id"])) % 2 else d
            os.makedirs(sub, exist_ok=True)
            p = os.path.join(sub, stem + ext)
            with open(p, "w") as f:
                f.write("".join(line + "\n" for line in it["lines"]))
            rec = {"id": it["id"]}
            try:
                with open(p) as fh:
                    rec["records"] = [[n, s] for n, s in fasta.read_fasta(fh)]
            except Exception as e:
                rec["exc"] = type(e).__name__
            if it.get("load"):
                try:
                    seqs = list(fasta.Sequence.loadall(p))
                    rec["loadall"] = [[q.name, q.sequence, bag_str(q)] for q in seqs]
                    first = fasta.Sequence.load(p)
                    rec["load"] = [first.name, first.sequence, bag_str(first)]
                    # the type the extension denotes
                    want = it["type"]
                    rec["expect"] = [[q.name, q.sequence, bag_str(fasta.Sequence(q.name, q.sequence, type=want))] for q in seqs]
                except Exception as e:
                    rec["load_exc"] = "%s: %s" % (type(e).__name__, str(e)[:80])
            os.remove(p)
            out.append(rec)
    finally:
        import shutil
        shutil.rmtree(d, ignore_errors=True)
    return out


def bag_str(q):
    return sorted((list(key(a)), round(float(c), 9)) for a, c in q.labile_formula.atoms.items())
