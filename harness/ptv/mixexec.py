"""C11 / C12 observations in a forked interpreter."""
from . import dec
from .formexec import build, key, atom as getatom


def bag(f):
    return [{"key": list(key(a)), "n": dec.to_dec(c)} for a, c in f.atoms.items()]


def comp_of(f, q, unit="", rep=1, tag=None):
    c = {"atoms": bag(f), "mass": dec.to_dec(f.mass), "rho": dec.enc(f.density), "q": dec.to_dec(q), "unit": unit, "rep": dec.to_dec(rep)}
    if tag:          # density tag written on a parenthesised group: "@1.1", "@1.1i", "@2n"
        c["tag"] = {"v": dec.to_dec(tag.lstrip("@").rstrip("ni")), "k": "n" if tag.endswith("n") else "d"}
        c["massnat"] = dec.to_dec(sum(n * _natural(a).mass for a, n in f.atoms.items()))
    return c


def result_of(fn):
    try:
        r = fn()
    except Exception as e:
        return {"exc": type(e).__name__}, None
    return {"atoms": bag(r), "rho": dec.enc(r.density)}, r


def render(spec):
    """spec -> string of the mixture grammar; returns (string, parts-for-the-event builder)."""
    form = spec["form"]
    pieces = []
    for i, p in enumerate(spec["parts"]):
        if "sub" in p:
            inner = render(p["sub"])
            body = "(" + inner + ")"
            if form in ("abs", "layer"):
                body += (("%g" % p["rep"]) if p.get("rep", 1) != 1 else "")
            else:
                body += p.get("dens", "")
        else:
            body = p["f"]
        last = i == len(spec["parts"]) - 1
        if form in ("wt%", "vol%"):
            if last:
                pieces.append(body)
            else:
                kw = p.get("kw", "%")
                pieces.append("%s%s %s" % (p["qs"], kw, body))
        else:
            if "sub" in p and "unit" in p:          # an amount of a parenthesised mixture: "50 g (1 L H2O@1 // 1 g NaCl)"
                pieces.append("%s%s%s (%s)" % (p["qs"], p.get("gap", " "), p["unit"], render(p["sub"])))
            elif "sub" in p:
                pieces.append(body)
            else:
                pieces.append("%s%s%s %s" % (p["qs"], p.get("gap", " "), p["unit"], body))
    return spec.get("sep", " // ").join(pieces)


def _parts_event(spec):
    import periodictable as P
    form = spec["form"]
    parts = []
    for i, p in enumerate(spec["parts"]):
        if "sub" in p:
            s = "(" + render(p["sub"]) + ")" + (p.get("dens", "") if form in ("wt%", "vol%") else "")
            f = P.formula(s)
            if form == "abs" and "unit" in p:
                parts.append(comp_of(P.formula("(" + render(p["sub"]) + ")"), p["q"], p["unit"], 1))
            elif form == "abs":
                parts.append(comp_of(f, f.total_mass, "group", p.get("rep", 1)))
            elif form == "layer":
                parts.append(comp_of(f, f.thickness, "group", p.get("rep", 1)))
            else:
                parts.append(comp_of(f, p.get("q", 0), "", 1, tag=p.get("dens") or None))
        else:
            f = P.formula(p["f"])
            parts.append(comp_of(f, p.get("q", 0), p.get("unit", ""), 1))
    return parts


def observe(arg):
    import periodictable as P
    from periodictable import formulas
    out = []
    for t in arg["items"]:
        try:
            k = t["kind"]
            if k == "mix":
                qs = [q for e, q in t["comps"]]
                args = []
                kw = {}
                if t.get("strings"):
                    # components as text, read by the mixing function itself with table=T (T2 has its own masses / densities)
                    from .formexec import _tab
                    tab = _tab(t.get("T"))
                    fs = [P.formula(e[1], table=tab) for e, q in t["comps"]]
                    for (e, q) in t["comps"]:
                        args += [e[1], q]
                    kw["table"] = tab
                else:
                    fs = [build(e) for e, q in t["comps"]]
                    for f, q in zip(fs, qs):
                        args += [f, q]
                if t.get("near_integer") and not t.get("strings"):
                    # nearly stoichiometric amounts: the second component's moles are K*(1+d) times the first's, d ~ 1e-7
                    K, d = t["near_integer"]
                    qs = [fs[0].mass, K * (1.0 + d) * fs[1].mass] + qs[2:]
                    args = []
                    for f, q in zip(fs, qs):
                        args += [f, q]
                fn = formulas.mix_by_weight if t["mode"] == "weight" else formulas.mix_by_volume
                if "density" in t:
                    kw["density"] = t["density"]
                res, r = result_of(lambda: fn(*args, **kw))
                ev = {"ev": "mix", "id": t["id"], "mode": t["mode"], "comps": [comp_of(f, q) for f, q in zip(fs, qs)], "result": res}
                if "density" in t:
                    ev["density_override"] = dec.to_dec(t["density"])
                out.append(ev)
            elif k == "mixstr":
                s = render(t["spec"])
                try:
                    parts = _parts_event(t["spec"])
                except Exception as e:
                    out.append({"ev": "harness_exc", "id": t["id"], "exc": "component %s: %s" % (type(e).__name__, str(e)[:80]), "string": s})
                    continue
                fkw = dict(t.get("kw") or {})          # keywords of formula() do not change what the text says
                res, r = result_of(lambda: P.formula(s, **fkw))
                ev = {"ev": "mixstr", "id": t["id"], "form": t["spec"]["form"], "parts": parts, "result": res, "string": s,
                      "total_mass": dec.enc(getattr(r, "total_mass", None)) if r is not None else {"k": "none"},
                      "thickness": dec.enc(getattr(r, "thickness", None)) if r is not None else {"k": "none"}}
                out.append(ev)
            elif k == "same":
                def ev_of(x):
                    if x[0] == "string":
                        return result_of(lambda: P.formula(x[1]))[0]
                    if x[0] == "render":
                        return result_of(lambda: P.formula(render(x[1])))[0]
                    fs = [build(e) for e, q in x[2]]
                    args = []
                    for f, (e, q) in zip(fs, x[2]):
                        args += [f, q]
                    fn = formulas.mix_by_weight if x[1] == "weight" else formulas.mix_by_volume
                    return result_of(lambda: fn(*args))[0]
                out.append({"ev": "same", "id": t["id"], "why": t["why"], "a": ev_of(t["a"]), "b": ev_of(t["b"])})
            elif k == "natd":
                out.append(_natd(t))
            elif k == "subst":
                out.append(_subst(t))
            elif k == "vol":
                out.append(_vol(t))
        except Exception as e:
            import traceback
            out.append({"ev": "harness_exc", "id": t["id"], "exc": "%s: %s" % (type(e).__name__, str(e)[:150]), "tb": traceback.format_exc()[-300:]})
    return out


def _natural(at):
    from periodictable import core
    base = at.element if core.ision(at) else at
    nat = base.element if core.isisotope(base) else base
    return nat.ion[at.charge] if core.ision(at) else nat


def _atoms_nat(f):
    return [{"n": dec.to_dec(c), "m": dec.to_dec(a.mass), "mnat": dec.to_dec(_natural(a).mass)} for a, c in f.atoms.items()]


def _t(t):
    from .formexec import _tab
    return _tab(t["T"]) if t.get("T") else None


def _natd(t):
    import periodictable as P
    how, val = t["how"], t.get("value")
    base = build(t["compound"], t.get("T"))
    if how == "none":
        f = P.formula(base)
    elif how == "kw_density":
        f = P.formula(base, density=val)
    elif how == "kw_natural":
        f = P.formula(base, natural_density=val)
    elif how == "attr_density":
        f = P.formula(base)
        f.density = val
    elif how == "attr_natural":
        f = P.formula(base)
        f.natural_density = val
    elif how in ("tag", "tag_i", "tag_n"):
        s = str(base) + "@" + ("%r" % val) + {"tag": "", "tag_i": "i", "tag_n": "n"}[how]
        f = P.formula(s, table=_t(t))
    elif how in ("iadd_density", "iadd_natural"):
        # a formula whose densities have been used, then changed in place, then given a new density
        f = P.formula(base, natural_density=t["before"])
        _ = (f.density, f.natural_density, f.natural_mass_ratio())
        f += P.formula(build(t["other"]))
        if how == "iadd_density":
            f.density = val
        else:
            f.natural_density = val
    elif how in ("group_tag", "group_tag_n"):
        # a density tag on a parenthesised mixture means what it means on a compound
        s = "(%s wt%% %s // %s)@%r%s" % (t.get("pct", 40), str(base), t.get("second", "H2O"), val, "n" if how == "group_tag_n" else "")
        f = P.formula(s, table=_t(t))
    elif how == "str_kw_natural":
        f = P.formula(str(base), natural_density=val, table=_t(t))
    elif how == "str_kw_density":
        f = P.formula(str(base), density=val, table=_t(t))
    given = {"kind": "none"} if how == "none" else {"kind": "natural" if how in ("kw_natural", "attr_natural", "tag_n", "str_kw_natural", "iadd_natural", "group_tag_n") else "density",
                                                    "v": dec.to_dec(val)}
    ev = {"ev": "natd", "id": t["id"], "atoms": _atoms_nat(f), "given": given, "density": dec.enc(f.density)}
    ev["natural_density"] = dec.enc(f.natural_density) if f.density is not None else {"k": "none"}
    if len(f.atoms) == 1:
        ev["atomdensity"] = dec.enc(list(f.atoms)[0].density)
    else:
        ev["atomdensity"] = {"k": "none"}
    return ev


def _subst(t):
    import periodictable as P
    f = build(t["compound"])
    if t.get("density") is not None:
        f = P.formula(f, density=t["density"])
    else:
        f = P.formula(f)
        if len(f.atoms) > 1:
            f.density = None
    src, tgt = getatom(*t["src"]), getatom(*t["tgt"])
    ev = {"ev": "subst", "id": t["id"], "src": list(key(src)), "tgt": list(key(tgt)), "p": dec.to_dec(t["p"]),
          "before": bag(f), "rho0": dec.enc(f.density), "mass0": dec.to_dec(f.mass)}
    try:
        g = f.replace(src, tgt, t["p"])
        ev["after"] = bag(g)
        ev["rho1"] = dec.enc(g.density)
        ev["mass1"] = dec.to_dec(g.mass)
    except Exception as e:
        ev["exc"] = type(e).__name__
    return ev


def _vol(t):
    import periodictable as P
    from periodictable import formulas
    f = build(t["compound"])
    if t["kind2"] == "packing":
        pf = t["pf"]
        V = f.volume(pf) if t.get("positional") else f.volume(packing_factor=pf)
        ev = {"ev": "vol", "id": t["id"], "kind": "packing", "V": dec.enc(V),
              "atoms": [{"n": dec.to_dec(c), "r": dec.to_dec(a.covalent_radius)} for a, c in f.atoms.items()]}
        if isinstance(pf, str):
            ev["name"] = pf.lower()
            ev["pf"] = dec.to_dec(formulas.PACKING_FACTORS[pf.lower()])
        else:
            ev["pf"] = dec.to_dec(pf)
        return ev
    kw = dict((k, t[k]) for k in ("a", "b", "c", "alpha", "beta", "gamma") if t.get(k) is not None)
    if t.get("a_positional"):         # the first lattice parameter positional, the others by keyword
        a0 = kw.pop("a")
        V = f.volume(a0, **kw)
    else:
        V = f.volume(**kw)
    a = t["a"]
    b = t["b"] if t.get("b") is not None else a
    c = t["c"] if t.get("c") is not None else a
    al = t["alpha"] if t.get("alpha") is not None else 90.0
    be = t["beta"] if t.get("beta") is not None else al
    ga = t["gamma"] if t.get("gamma") is not None else al
    return {"ev": "vol", "id": t["id"], "kind": "lattice", "V": dec.enc(V), "a": dec.to_dec(a), "b": dec.to_dec(b), "c": dec.to_dec(c),
            "alpha": dec.to_dec(al), "beta": dec.to_dec(be), "gamma": dec.to_dec(ga)}
