"""Execute a history of loader events in THIS (fresh) interpreter and observe.

Imported only inside forked children: it imports periodictable on first use.
Event language (dicts):
  {"op":"read",  "T":tab, "a":atom, "p":prop}         getattr
  {"op":"probe", "T":tab, "a":atom, "p":prop}         hasattr
  {"op":"import","m":module}
  {"op":"calc",  "c":name}
  {"op":"init",  "g":group, "T":tab}                 module.init(T) / init_spectral_lines(T)
  {"op":"reload","g":group, "T":tab}                 module.init(T, reload=True)
  {"op":"create","T":tab}                            PeriodicTable(tab) + mass.init + density.init
  {"op":"assign","T":tab, "a":atom, "p":prop}         setattr(atom, prop, <marker value>)
  {"op":"mutate","T":tab, "a":atom, "p":prop}         in-place change of the mutable value served
  {"op":"parse", "T":tab} / {"op":"pickle","T":tab,"a":atom} / {"op":"tcalc","T":tab} calculators with table=T after T's masses were changed
Atoms are the model's representatives: e0 eD eN iD iN ionD iion.
"""
import hashlib
import importlib
import pickle
import sys

PROPS = {"cr": "covalent_radius", "cru": "covalent_radius_units", "crunc": "covalent_radius_uncertainty",
         "cs": "crystal_structure", "nt": "neutron", "ns": "nuclear_spin", "na": "neutron_activation",
         "xr": "xray", "ka": "K_alpha", "kb": "K_beta1", "kau": "K_alpha_units", "kbu": "K_beta1_units",
         "mf": "magnetic_ff"}
REGPROPS = ["cr", "cru", "crunc", "cs", "nt", "na", "xr", "ka", "kb", "kau", "kbu", "mf", "ns"]
GROUPS = {"cov": ["cr", "cru", "crunc"], "cryst": ["cs"], "neut": ["nt", "ns"], "act": ["na"],
          "xray": ["xr"], "emis": ["ka", "kb", "kau", "kbu"], "mag": ["mf"]}
GROUP_OF = dict((p, g) for g, ps in GROUPS.items() for p in ps)
GUARD = {"cov": "covalent_radius", "cryst": "crystal_structure", "neut": "neutron",
         "act": "neutron_activation", "xray": "xray", "emis": None, "mag": "magnetic_ff"}
GUARD_INV = dict((v, k) for k, v in GUARD.items() if v)
ATOMS = ["e0", "eD", "eN", "iD", "iN", "ionD", "iion"]
CANON_ORDER = ["cov", "cryst", "neut", "act", "xray", "emis", "mag"]

_tables = {}


def pt():
    import periodictable
    return periodictable


def table(T):
    if T == "pub":
        return pt().elements
    return _tables[T]


def atom(T, a):
    t = table(T)
    if a == "e0":
        return t[0]
    if a == "eD":
        return t.Co
    if a == "eN":
        return t.Rf
    if a == "iD":
        return t.Co[59]
    if a == "iN":
        return t.Co[57]
    if a == "ionD":
        return t.Co.ion[2]
    if a == "iion":
        return t.Co[59].ion[2]
    # free-form: "Fe", "Fe[56]", "Fe{2}", "Fe[56]{2}"
    import re
    m = re.match(r"^([A-Za-z]+)(?:\[(\d+)\])?(?:\{(-?\d+)\})?$", a)
    el = getattr(t, m.group(1))
    if m.group(2):
        el = el[int(m.group(2))]
    if m.group(3):
        el = el.ion[int(m.group(3))]
    return el


# ---- value serialisation ---------------------------------------------------
def ser(v, depth=0):
    import numpy as np
    from periodictable import core
    if v is None or isinstance(v, (bool, int, str)):
        return repr(v)
    if isinstance(v, float):
        return repr(v)
    if isinstance(v, complex):
        return repr(v)
    if isinstance(v, np.generic):
        return repr(v.item())
    if isinstance(v, np.ndarray):
        return "nd%s%s" % (v.shape, [ser(x, depth + 1) for x in v.ravel().tolist()])
    if isinstance(v, (list, tuple)):
        return "[" + ",".join(ser(x, depth + 1) for x in v) + "]"
    if isinstance(v, dict):
        return "{" + ",".join("%s:%s" % (ser(k, depth + 1), ser(x, depth + 1))
                              for k, x in sorted(v.items(), key=lambda kv: repr(kv[0]))) + "}"
    if core.isatom(v):
        return "atom(%s)" % atom_key(v)
    if isinstance(v, core.PeriodicTable):
        return "table"
    cname = type(v).__name__
    if cname == "Xray":
        # the scattering-factor table of one fixed element (Co) and of the neutron (which has none, but whose file name
        # n.nff would collide with nitrogen's on a case-insensitive key) is part of the served value
        tab = ""
        if atom_key(v.element).startswith(("27-", "0-", "104-")):      # (Rf: an element without a data file)
            try:
                t = v.sftable
                tab = "," + h(t.tobytes()) if t is not None else ",notable"
            except Exception as e:
                tab = ",X:" + type(e).__name__
        own = _table_name_of(v.element)
        rel = "" if (_CUR[0] is None or own == _CUR[0]) else ",of-table:" + own      # an atom must be served its own table's record
        return "Xray(%s%s%s)" % (atom_key(v.element), tab, rel)
    if hasattr(v, "__dict__") and depth < 4:
        d = dict(vars(v))
        if cname == "Neutron":
            # class-level data fields that instances may override
            for k in ("coherent", "incoherent", "total", "absorption", "abundance",
                      "is_energy_dependent", "nsf_table"):
                d.setdefault(k, getattr(v, k, None))
        return cname + ser(d, depth + 1)
    return "<%s>" % cname


_CUR = [None]      # real name of the table whose atom is being observed


def _table_name_of(a):
    from periodictable import core
    base = a.element if core.ision(a) else a
    el = base.element if core.isisotope(base) else base
    return el.table


def atom_key(a):
    from periodictable import core
    q = a.charge if core.ision(a) else 0
    base = a.element if core.ision(a) else a
    A = base.isotope if core.isisotope(base) else 0
    return "%d-%d-%d" % (base.number, A, q)


def h(s):
    return hashlib.sha1(s.encode()).hexdigest()[:12]


def _is_marker(p, v):
    try:
        if p == "nt":
            return getattr(v, "b_c", None) == 99.5
        if p in MARK:
            return type(v) is type(MARK[p]) and v == MARK[p]
    except Exception:
        pass
    return False


def _is_mutated(p, v):
    try:
        if p == "cs":
            return isinstance(v, dict) and v.get("symmetry") == "MUTATED"
        if p == "nt":
            return getattr(v, "b_c", None) == 12345.5
        if p == "mf":
            return v[2].j0 == (9.0,) * 7
        if p == "na":
            return v[0].thermalXS == 12345.5
        if p == "xr":
            return getattr(v, "marker", None) == "MUTATED" or (v._table is not None and v._table[2][0] == 12345.5)
    except Exception:
        pass
    return False


def classify(p, v):
    """Outcome class of a successful read: P = missing-data placeholder / None, D = data,
    A = a value written by an assign event, M = a value changed in place by a mutate event."""
    if v is None:
        return "P"
    if _is_mutated(p, v):
        return "M"
    if _is_marker(p, v):
        return "A"
    if type(v).__name__ == "Neutron" and not v.has_sld() and getattr(v, "b_c", None) is None \
            and getattr(v, "coherent", None) is None:
        return "P"
    return "D"


def observe_read(T, a, p):
    try:
        at = atom(T, a)
    except Exception as e:  # the atom itself is unreachable
        return {"cls": "X", "exc": type(e).__name__, "dig": ""}
    _CUR[0] = _table_name_of(at)
    try:
        v = getattr(at, PROPS.get(p, p))
    except AttributeError:
        return {"cls": "E", "dig": "E"}
    except Exception as e:
        return {"cls": "X", "exc": type(e).__name__, "dig": "X"}
    finally:
        pass
    try:
        return {"cls": classify(p, v), "dig": h(ser(v))}
    finally:
        _CUR[0] = None


# ---- abstraction function --------------------------------------------------
def alpha():
    from periodictable import core
    classes = {"El": core.Element, "Iso": core.Isotope, "Ion": core.Ion}
    cls = {}
    for cn, c in classes.items():
        for p in REGPROPS:
            name = PROPS[p]
            if name not in vars(c):
                k = "abs"
            else:
                v = vars(c)[name]
                if isinstance(v, property):
                    k = "pend" if "delayed_load" in getattr(v.fget, "__qualname__", "") else "real"
                else:
                    k = "plain"
            cls[cn + "." + p] = k
    inst = []
    tp = {}
    for T in ["pub"] + sorted(_tables):
        t = table(T)
        tp[T] = sorted(GUARD_INV[g] for g in t.properties if g in GUARD_INV)
        for a in ATOMS:
            try:
                at = atom(T, a)
            except Exception:
                continue
            for p in REGPROPS:
                if PROPS[p] in vars(at):
                    inst.append("%s.%s.%s" % (T, a, p))
    return {"cls": cls, "inst": sorted(inst), "tp": tp}


# ---- digests ----------------------------------------------------------------
def group_digest(T, g, full=True):
    """Digest of every value table T serves for group g (all elements, isotopes, sample of ions)."""
    t = table(T)
    parts = []
    names = [PROPS[p] for p in GROUPS[g]]
    for el in t:
        ats = [el] + ([iso for iso in el] if full else [])
        if el.ions:
            ats.append(el.ion[el.ions[0]])
            if full and el.isotopes and el.number % 7 == 6:          # a sample of isotope ions (Co among them)
                ats.append(el[el.isotopes[0]].ion[el.ions[0]])
        for at in ats:
            _CUR[0] = _table_name_of(at)
            for nm in names:
                try:
                    v = getattr(at, nm)
                    s = ser(v)
                except AttributeError:
                    s = "E"
                except Exception as e:
                    s = "X:" + type(e).__name__
                parts.append("%s.%s=%s" % (atom_key(at), nm, s))
    _CUR[0] = None
    return parts


def table_digest(T, full=True, detail=False):
    out = {}
    t = table(T)
    for g in CANON_ORDER:
        # a private table is only bound by the property for the groups it has initialised (the neutron digest of an
        # uninitialised private table would only measure the class-level placeholder 3000 times)
        if T != "pub" and GUARD[g] is not None and GUARD[g] not in t.properties and g != "xray":
            continue
        parts = group_digest(T, g, full)
        out[g] = h("\n".join(parts))
        if detail:
            out[g + "#detail"] = parts
    return out


def rep_outcomes(T):
    """Outcome of a read of every (representative atom, prop) on table T."""
    out = {}
    for a in ATOMS:
        for p in REGPROPS:
            out[a + "." + p] = observe_read(T, a, p)
    return out


# ---- mutable heap -----------------------------------------------------------
def mutable_ids(T):
    """id()s of the mutable per-atom objects reachable from table T's atoms, by kind."""
    import numpy as np
    t = table(T)
    ids = {}

    def add(kind, o):
        if o is not None and not isinstance(o, (int, float, str, tuple, complex, bool)):
            ids.setdefault(kind, set()).add(id(o))
    for el in t:
        bases = [el] + [iso for iso in el]
        ions = [ion for b in bases for ion in b.ion.ionset.values()]       # the ions created so far
        for at in bases + ions:
            d = vars(at)
            for nm in ("crystal_structure", "magnetic_ff", "neutron", "neutron_activation", "_xray"):
                if nm in d:
                    v = d[nm]
                    add(nm, v)
                    if nm == "_xray" and getattr(v, "_table", None) is not None:
                        add("_xray.table", v._table)
                    if nm == "magnetic_ff" and isinstance(v, dict):
                        for x in v.values():
                            add("magnetic_ff.item", x)
                    if nm == "neutron_activation" and isinstance(v, list):
                        for x in v:
                            add("neutron_activation.item", x)
                    if nm == "neutron" and getattr(v, "nsf_table", None) is not None:
                        for x in v.nsf_table:
                            add("neutron.nsf_table", x)
            # what the atom serves through class-level defaults
            for nm in ("neutron",):
                try:
                    v = getattr(at, nm)
                except Exception:
                    continue
                add(nm + "#served", v)
    return dict((k, sorted(str(x) for x in v)) for k, v in ids.items())


# ---- events -----------------------------------------------------------------
INIT_FN = {"cov": ("covalent_radius", "init"), "cryst": ("crystal_structure", "init"), "neut": ("nsf", "init"),
           "act": ("activation", "init"), "xray": ("xsf", "init"), "emis": ("xsf", "init_spectral_lines"),
           "mag": ("magnetic_ff", "init"), "mass": ("mass", "init"), "density": ("density", "init")}

MARK = {"cr": 9.875, "crunc": 0.125, "cru": "marker", "cs": {"symmetry": "marker"}, "ka": 9.875, "kb": 8.875,
        "kau": "marker", "kbu": "marker", "ns": "9/2", "_mass": 999.5, "_density": 99.5}


def do_calc(c):
    P = pt()
    if c == "neutron_sld":
        return ser(P.neutron_sld("CoH2O", density=1.0, wavelength=1.8))
    if c == "atom_sld":
        return ser(P.Co.neutron.sld())
    if c == "xray_sld":
        return ser(P.xray_sld("CoSi3N4O", density=2.2, energy=8.0))
    if c == "f0":
        return ser(P.Co.xray.f0(0.5))
    if c == "volume":
        return ser(P.formula("Co2O3").volume())
    if c == "activation":
        from periodictable import activation
        s = activation.Sample("Co", 1.0)
        s.calculate_activation(activation.ActivationEnvironment(fluence=1e8), exposure=1, rest_times=[0, 1])
        return ser(sorted((str(k.daughter), v) for k, v in s.activity.items()))
    if c == "activation_iaea":
        from periodictable import activation
        s = activation.Sample("Co", 1.0)
        s.calculate_activation(activation.ActivationEnvironment(fluence=1e8), exposure=1, rest_times=[0, 1],
                               abundance=activation.IAEA1987_isotopic_abundance)
        return ser(sorted((str(k.daughter), v) for k, v in s.activity.items()))
    if c == "d2o_match":
        from periodictable import nsf
        return ser(nsf.D2O_match("C3H4H[1]NO@1.29n"))
    if c == "list":
        import io, contextlib
        buf = io.StringIO()
        with contextlib.redirect_stdout(buf):
            P.elements.list("symbol", "K_alpha", "covalent_radius")
        return h(buf.getvalue())
    if c == "composite":
        from periodictable import nsf
        f = nsf.neutron_composite_sld([P.formula("Co"), P.formula("H2O")], wavelength=1.8)
        return ser(f([1.0, 2.0], density=1.2))
    if c == "magff":
        return ser(P.Co.magnetic_ff[2].j0_Q(0.5))
    if c == "emission_table":
        import io, contextlib
        from periodictable import xsf
        buf = io.StringIO()
        with contextlib.redirect_stdout(buf):
            xsf.emission_table()
        return h(buf.getvalue())
    raise KeyError(c)


def do_mutate(T, a, p):
    """In-place change of the mutable value served for (T, a, p). Returns a description."""
    at = atom(T, a)
    v = getattr(at, PROPS.get(p, p))
    was = classify(p, v)
    _do_mutate(v, p)
    return "ok:P" if was == "P" else "ok"


def _do_mutate(v, p):
    if p == "cs":
        v["symmetry"] = "MUTATED"
    elif p == "nt":
        v.b_c = 12345.5
    elif p == "mf":
        v[2].j0 = (9.0,) * 7
    elif p == "na":
        v[0].thermalXS = 12345.5
    elif p == "xr":
        v.marker = "MUTATED"
        t = v.sftable                      # the table array itself is per-atom data as well
        if t is not None:
            t[2][0] = 12345.5
    elif p == "nt_table":
        v.nsf_table[1][0] = 12345.5
    else:
        raise KeyError(p)


def execute_event(ev):
    op = ev["op"]
    P = pt()
    if op == "read":
        return observe_read(ev["T"], ev["a"], ev["p"])
    if op == "probe":
        try:
            at = atom(ev["T"], ev["a"])
            r = hasattr(at, PROPS.get(ev["p"], ev["p"]))
        except Exception as e:
            return {"cls": "X", "exc": type(e).__name__}
        return {"cls": "T" if r else "F"}
    if op == "import":
        try:
            importlib.import_module("periodictable." + ev["m"])
        except Exception as e:
            return {"cls": "X", "exc": type(e).__name__, "msg": str(e)[:100]}
        return {"cls": "ok"}
    if op == "calc":
        try:
            return {"cls": "D", "dig": h(do_calc(ev["c"]))}
        except AttributeError as e:
            return {"cls": "E", "dig": "E", "msg": str(e)[:100]}
        except Exception as e:
            return {"cls": "X", "exc": type(e).__name__, "dig": "X", "msg": str(e)[:100]}
    if op == "init":
        mod, fn = INIT_FN[ev["g"]]
        m = importlib.import_module("periodictable." + mod)
        try:
            getattr(m, fn)(table(ev["T"]))
        except Exception as e:
            return {"cls": "X", "exc": type(e).__name__, "msg": str(e)[:100]}
        return {"cls": "ok"}
    if op == "reload":
        mod, fn = INIT_FN[ev["g"]]
        m = importlib.import_module("periodictable." + mod)
        f = getattr(m, fn)
        try:
            if "reload" in f.__code__.co_varnames[:f.__code__.co_argcount]:
                f(table(ev["T"]), reload=True)
            else:
                f(table(ev["T"]))
        except Exception as e:
            return {"cls": "X", "exc": type(e).__name__, "msg": str(e)[:100]}
        return {"cls": "ok"}
    if op == "create":
        from periodictable import core, mass, density
        t = core.PeriodicTable(ev["T"])
        _tables[ev["T"]] = t
        mass.init(t)
        density.init(t)
        return {"cls": "ok"}
    if op == "assign":
        at = atom(ev["T"], ev["a"])
        p = ev["p"]
        try:
            if p == "nt":
                from periodictable import nsf
                n = nsf.Neutron()
                n.b_c = 99.5
                setattr(at, "neutron", n)
            else:
                import copy
                setattr(at, PROPS.get(p, p), copy.deepcopy(MARK[p]))
        except Exception as e:
            return {"cls": "X", "exc": type(e).__name__, "msg": str(e)[:100]}
        return {"cls": "ok"}
    if op == "mutate":
        try:
            return {"cls": do_mutate(ev["T"], ev["a"], ev["p"])}
        except AttributeError:
            return {"cls": "E"}
        except Exception as e:
            return {"cls": "X", "exc": type(e).__name__, "msg": str(e)[:100]}
    if op == "parse":
        t = table(ev["T"])
        from periodictable import formulas
        made = [P.formula("Co2O3 + 3H[2]2O + Co{2+}Fe[56]{3+}", table=t),
                P.formula("5wt% NaCl@2.16 // D2O@1n", table=t),
                P.formula("20vol% Fe[56]@7 // Ni{2+}@8", table=t),
                P.formula("1um Si // 2nm Co@8.9", table=t),
                formulas.mix_by_weight("H2O@1", 1, "D2O@1.1n", 2, table=t),
                formulas.mix_by_volume("H2O@1", 1, "Co[59]{2+}O@6", 2, table=t),
                P.formula("aa:GAVL", table=t) if hasattr(P, "fasta") or True else None,
                formulas.formula_grammar(table=t).parse_string("CoO", parse_all=True)[0]]
        ok = all(_owner(a) is t for f in made if f is not None for a in f.atoms)
        # ... and after every other table in existence has parsed (so that its parser exists, built before or after
        # this table's): mixtures read with table=o hold o's atoms, the same mixtures read with table=t still hold t's
        mixes = ["5wt% NaCl@2.16 // D2O@1.1", "20vol% Fe[56]@7 // Ni{2+}@8", "1um Si@2.33 // 2nm Co@8.9", "5 g NaCl@2.16 // 50 mL H2O@1",
                 "50 wt% Co // Ti"]
        for o in [pt().elements] + [x for _, x in sorted(_tables.items())]:
            if o is t:
                continue
            try:
                theirs = [P.formula("Co2O3", table=o)] + [P.formula(m, table=o) for m in mixes]
            except Exception:
                theirs = []
            ok = ok and all(_owner(a) is o for f in theirs for a in f.atoms)
            mine = [P.formula(m, table=t) for m in mixes]
            ok = ok and all(_owner(a) is t for f in mine for a in f.atoms)
        return {"cls": "T" if ok else "F"}
    if op == "tcalc":
        # the owner of T changes some of its data and runs the calculators with table=T; nothing of it may show on
        # another table (module-level caches keyed without the table would)
        from periodictable import nsf
        t = table(ev["T"])
        t.H._mass = t.H._mass * 1.5
        t.O._mass = t.O._mass * 1.25
        try:
            nsf.D2O_match("C3H4H[1]NO@1.29n", table=t)
            nsf.D2O_sld("C3H4H[1]NO@1.29n", volume_fraction=0.5, D2O_fraction=0.3, table=t)
            P.neutron_sld("CoH2O", density=1.0, wavelength=1.8, table=t)
            P.xray_sld("CoSi3N4O", density=2.2, energy=8.0, table=t)
        except Exception as e:
            return {"cls": "X", "exc": type(e).__name__, "msg": str(e)[:100]}
        return {"cls": "ok"}
    if op == "pickle":
        how = ev.get("how", "plain")
        if how == "after-refused-duplicate":
            # a second table under the same name is refused; the first one stays what its atoms are restored into
            from periodictable import core
            try:
                core.PeriodicTable(ev["T"] if ev["T"] != "pub" else "public")
                return {"cls": "F", "msg": "duplicate table name accepted"}
            except ValueError:
                pass
        if how == "orphans":
            # atoms (and a formula made of them) of a table nobody holds any more
            import gc
            from periodictable import core, mass, density

            def helper():
                # (the first such table of an interpreter is an unnamed scratch table: '' is a table name like any other)
                t = core.PeriodicTable("helper-%d" % len(core.PRIVATE_TABLES) if "" in core.PRIVATE_TABLES else "")
                mass.init(t)
                density.init(t)
                return [t.Co, t.Co[59], t.Co.ion[2], t.Co[59].ion[2], P.formula({t.Co: 1, t.O: 3})]
            keep = helper()
            gc.collect()
            try:
                ok = all(pickle.loads(pickle.dumps(x)) is x for x in keep[:4])
                f2 = pickle.loads(pickle.dumps(keep[4]))
                ok = ok and all(a is b for a, b in zip(sorted(f2.atoms, key=str), sorted(keep[4].atoms, key=str)))
            except Exception as e:
                return {"cls": "F", "msg": "%s: %s" % (type(e).__name__, str(e)[:80])}
            return {"cls": "T" if ok else "F"}
        if how == "bare":
            # a table without isotope masses: whatever formula(text, table=T) returns belongs to T (or it raises)
            from periodictable import core, density
            t = core.PeriodicTable("bare-%d" % len(core.PRIVATE_TABLES))
            density.init(t)
            for text in ("aa:GA", "H[1]2O", "CoO", "Co[59]O"):
                try:
                    f = P.formula(text, table=t)
                except Exception:
                    continue
                if not all(_owner(a) is t for a in f.atoms):
                    return {"cls": "F", "msg": "atoms of another table for " + text}
            return {"cls": "T"}
        at = atom(ev["T"], ev["a"])
        try:
            back = pickle.loads(pickle.dumps(at))
        except Exception as e:          # restoring must not fail
            return {"cls": "F", "msg": "%s: %s" % (type(e).__name__, str(e)[:80])}
        return {"cls": "T" if back is at else "F"}
    raise KeyError(op)


def _owner(a):
    from periodictable import core
    base = a.element if core.ision(a) else a
    el = base.element if core.isisotope(base) else base
    return core.PRIVATE_TABLES.get(el.table)


def execute(history, opts=None):
    """Run a history; returns {"steps":[{out, alpha, pub}], "final":{...}}."""
    opts = opts or {}
    pt()
    steps = []
    for ev in history:
        out = execute_event(ev)
        st = {"out": out}
        if opts.get("alpha", True):
            st["alpha"] = alpha()
        steps.append(st)
    final = {}
    if opts.get("rep", True):
        final["rep"] = dict((T, rep_outcomes(T)) for T in ["pub"] + sorted(_tables))
    if opts.get("digest", True):
        final["digest"] = dict((T, table_digest(T, full=opts.get("full", True), detail=opts.get("detail", False)))
                               for T in ["pub"] + sorted(_tables))
    if opts.get("heap", False):
        final["heap"] = dict((T, mutable_ids(T)) for T in ["pub"] + sorted(_tables))
    if opts.get("alpha_final", False):
        final["alpha"] = alpha()
    return {"steps": steps, "final": final}


def canonical_history():
    rep = {"cov": "eD", "cryst": "eD", "neut": "eD", "act": "iD", "xray": "eD", "emis": "eD", "mag": "eD"}
    return [{"op": "read", "T": "pub", "a": rep[g], "p": GROUPS[g][0]} for g in CANON_ORDER]
