"""Run TLC / parse its output.  All scratch goes to a per-run temp dir that is removed."""
import json
import os
import sys
import re
import shutil
import subprocess
import tempfile
import time

VERIF = os.path.dirname(os.path.dirname(os.path.dirname(os.path.abspath(__file__))))
SPEC = os.path.join(VERIF, "spec")
JARS = "/opt/veriftools/tla/tla2tools.jar:/opt/veriftools/tla/CommunityModules-deps.jar"


class TLCError(RuntimeError):
    pass


def _die_with_parent():
    """Linux: deliver SIGKILL to the child when the harness process dies (no orphan JVMs)."""
    try:
        import ctypes
        ctypes.CDLL("libc.so.6").prctl(1, 9)
    except Exception:
        pass


def brief(out, n=1500):
    """The informative part of a failed TLC run's output."""
    lines = [l for l in out.splitlines() if '@@' not in l]
    keep = [i for i, l in enumerate(lines) if "rror" in l or "***" in l or "Unknown operator" in l or "violated" in l]
    if not keep:
        return out[-n:]
    sel = []
    for i in keep[:6]:
        sel += lines[max(0, i - 2):i + 8]
    return "\n".join(dict.fromkeys(sel))[:n]


class TLCResult(object):
    def __init__(self, rc, out, wall):
        self.rc = rc
        self.out = out
        self.wall = wall
        self.states_generated = 0
        self.distinct = 0
        self.depth = 0
        m = re.search(r"(\d+) states generated, (\d+) distinct states found", out)
        if m:
            self.states_generated = int(m.group(1))
            self.distinct = int(m.group(2))
        self.sim_traces = 0
        m = re.search(r"The number of states generated: (\d+)", out)
        if m and not self.states_generated:
            self.states_generated = int(m.group(1))
        m = re.findall(r"(\d+) traces generated", out)
        if m:
            self.sim_traces = int(m[-1])
        m = re.search(r"depth of the complete state graph search is (\d+)", out)
        if m:
            self.depth = int(m.group(1))
        self.invariant_violated = re.findall(r"Invariant (\S+) is violated", out)
        self.action_prop_violated = "Action property" in out and "violated" in out
        self.error = ("Error:" in out) or rc not in (0,)
        self.finished = "Model checking completed" in out or "Finished in" in out

    def printed(self, prefix="@@"):
        """JSON records printed with PrintT(<<"@@", ToJson(x)>>) or PrintT("@@" \\o ToJson(x))."""
        return list(self.iter_printed(prefix))

    def iter_printed(self, prefix="@@"):
        """the same, one record at a time (large simulation outputs are not materialised)"""
        pos = 0
        out = self.out
        while pos < len(out):
            nl = out.find("\n", pos)
            if nl < 0:
                nl = len(out)
            line = out[pos:nl]
            pos = nl + 1
            i = line.find(prefix)
            if i < 0:
                continue
            s = line[i + len(prefix):].strip()
            if s.endswith('"') and not s.startswith('"'):
                s = s[:-1]
            if s.startswith('"') and s.endswith('"'):
                s = s[1:-1]
            try:
                yield json.loads(s)
            except ValueError:
                try:
                    yield json.loads(s.replace('\\"', '"'))
                except ValueError:
                    raise TLCError("unparsable TLC record line: %r" % line[:300])

    def coverage(self):
        """action name -> (distinct, total) from -coverage output."""
        cov = {}
        for m in re.finditer(r"<(\w+) line \d+, col \d+ to line \d+, col \d+ of module (\w+)>: (\d+):(\d+)", self.out):
            cov[m.group(1)] = (int(m.group(3)), int(m.group(4)))
        return cov


def run(module, cfg, workdir=None, workers=1, env=None, timeout=1800, extra=(), simulate=None,
        depth=None, seed=None, dump=None, coverage=False, deadlock=False, xss="512m", heap=None):
    """Run TLC on spec/<module>.tla with cfg text or path.  Returns TLCResult.

    The module and everything under spec/ are copied (symlinked) into a scratch dir so
    that TLC's state/ metadata never lands in /verif.
    """
    scratch = tempfile.mkdtemp(prefix="ptv-tlc-")
    try:
        for f in os.listdir(SPEC):
            if f.endswith(".tla"):
                os.symlink(os.path.join(SPEC, f), os.path.join(scratch, f))
        if workdir:
            for f in os.listdir(workdir):
                p = os.path.join(scratch, f)
                if os.path.lexists(p):
                    os.remove(p)
                os.symlink(os.path.join(os.path.abspath(workdir), f), p)
        cfgpath = os.path.join(scratch, module + ".cfg")
        if os.path.lexists(cfgpath):
            os.remove(cfgpath)
        if "\n" in cfg or not os.path.exists(cfg):
            with open(cfgpath, "w") as f:
                f.write(cfg)
        else:
            shutil.copy(cfg, cfgpath)
        # single-worker runs (trace validation: 16 of them side by side) start with a small heap and the serial collector,
        # so that a check's sixteen JVMs take a few hundred MB each instead of the default 1/64 of the machine's memory
        gc = ["-XX:+UseSerialGC", "-Xms64m"] if workers == 1 else ["-XX:+UseParallelGC"]
        # (TLC unpacks its standard modules into java.io.tmpdir and leaves them there: keep that inside the scratch dir)
        cmd = ["java"] + gc + ["-XX:+ExitOnOutOfMemoryError", "-Xss" + xss, "-Djava.io.tmpdir=" + scratch]
        if heap is None:
            heap = "3g" if workers == 1 else "12g"
        cmd.append("-Xmx" + heap)
        cmd += ["-cp", JARS, "tlc2.TLC", "-metadir", os.path.join(scratch, "states"),
                "-noGenerateSpecTE", "-workers", str(workers), "-config", cfgpath]
        if not deadlock:
            cmd.append("-deadlock")
        if coverage:
            cmd += ["-coverage", "1"]
        if simulate:
            cmd += ["-simulate", simulate]
        if depth:
            cmd += ["-depth", str(depth)]
        if seed is not None:
            cmd += ["-seed", str(seed)]
        if dump:
            cmd += ["-dump", "dot,actionlabels", dump]
        cmd += list(extra)
        cmd.append(module)
        e = dict(os.environ)
        e.pop("JAVA_TOOL_OPTIONS", None)
        if env:
            e.update(env)
        t0 = time.time()
        for attempt in range(3):
            try:
                p = subprocess.run(cmd, cwd=scratch, env=e, stdout=subprocess.PIPE, stderr=subprocess.STDOUT,
                                   timeout=timeout, universal_newlines=True, preexec_fn=_die_with_parent)
            except subprocess.TimeoutExpired:
                raise TLCError("TLC timed out after %ss: %s" % (timeout, module))
            # the JVM itself died (killed, out of memory, could not reserve its heap on a loaded machine): that says
            # nothing about the specification; start it again after a pause.  TLC's own exit codes are >= 10 (or 0).
            if not (p.returncode < 0 or p.returncode in (1, 2, 3, 134, 137, 143)):
                break
            sys.stderr.write("tlc: JVM exit %s on %s (attempt %d), restarting\n" % (p.returncode, module, attempt + 1))
            shutil.rmtree(os.path.join(scratch, "states"), ignore_errors=True)
            time.sleep(10 * (attempt + 1))
        return TLCResult(p.returncode, p.stdout, time.time() - t0)
    finally:
        shutil.rmtree(scratch, ignore_errors=True)


def parse_dot(path):
    """Parse `-dump dot,actionlabels` output: returns (nodes {id: label}, edges [(src, dst, action)], init ids)."""
    nodes = {}
    edges = []
    inits = []
    node_re = re.compile(r'^(-?\d+) \[label="(.*)"(,style = filled)?\]')
    edge_re = re.compile(r'^(-?\d+) -> (-?\d+) \[label="([^"]*)"')
    with open(path) as f:
        for line in f:
            m = edge_re.match(line)
            if m:
                edges.append((m.group(1), m.group(2), m.group(3)))
                continue
            m = node_re.match(line)
            if m:
                nodes[m.group(1)] = m.group(2).replace("\\n", "\n").replace('\\"', '"').replace("\\\\", "\\")
                if m.group(3):
                    inits.append(m.group(1))
    return nodes, edges, inits
