"""C08 sweep executed inside a forked fresh interpreter: every lookup route for the atoms of
a batch of elements, on the public table and a private table, recorded as trace events."""
import copy
import pickle
import random


def _res(o, tabname_of):
    from periodictable import core
    base = o.element if core.ision(o) else o
    el = base.element if core.isisotope(base) else base
    return {"id": str(id(o)), "z": o.number, "a": (base.isotope if core.isisotope(base) else 0),
            "q": (o.charge if core.ision(o) else 0), "sym": o.symbol, "name": o.name, "tab": el.table,
            "cls": type(o).__name__}


def _call(fn):
    try:
        o = fn()
    except Exception as e:
        return {"exc": type(e).__name__}
    from periodictable import core
    if not core.isatom(o):
        return {"exc": "NotAnAtom:" + type(o).__name__}
    return _res(o, None)


def sweep(arg):
    import periodictable
    from periodictable import core, mass, density
    rng = random.Random(arg["seed"])
    shape = arg["shape"]          # z -> {"sym","name","ions","isos"}
    zs = arg["zs"]
    iso_ion_fraction = arg.get("iso_ion_fraction", 1.0)
    pub = periodictable.elements
    priv = core.PeriodicTable("T1")
    mass.init(priv)
    density.init(priv)
    tabs = [("public", pub), ("T1", priv)]
    evs = []
    # a script that did 'from periodictable import *' and then switches its element names to its private table
    ns_priv = {}
    exec("from periodictable import *", ns_priv)
    core.define_elements(priv, ns_priv)

    def L(route, T, inp, fn):
        evs.append({"ev": "L", "r": route, "T": T, "in": inp, "res": _call(fn)})

    allz = sorted(int(z) for z in shape)
    for T, t in tabs:
        if arg.get("iter", False):
            evs.append({"ev": "iter", "T": T, "res": [el.number for el in t]})
    for z in zs:
        sh = shape[str(z)]
        sym, name, ions, isos = sh["sym"], sh["name"], sh["ions"], sh["isos"]
        for T, t in tabs:
            other_name, other = [x for x in tabs if x[0] != T][0]
            # ---- element routes
            L("Z", T, {"z": z}, lambda: t[z])
            L("sym", T, {"s": sym}, lambda: t.symbol(sym))
            L("name", T, {"s": name}, lambda: t.name(name))
            L("iso", T, {"form": "sym", "sym": sym, "a": 0}, lambda: t.isotope(sym))
            L("attr", T, {"s": sym}, lambda: getattr(t, sym))
            if T == "public":
                L("mod", T, {"s": sym}, lambda: getattr(periodictable, sym))
                L("mod", T, {"s": name}, lambda: getattr(periodictable, name))
            else:
                L("mod", T, {"s": sym}, lambda: ns_priv[sym])
                L("mod", T, {"s": name}, lambda: ns_priv[name])
            try:
                evs.append({"ev": "iterIso", "T": T, "z": z, "res": [iso.isotope for iso in t[z]],
                            "prop": list(t[z].isotopes)})
            except Exception as e:
                evs.append({"ev": "iterIso", "T": T, "z": z, "res": [], "prop": [], "exc": type(e).__name__})
            # ---- invalid neighbours of element keys
            for bad in {sym.lower(), sym.upper() if len(sym) > 1 else sym + "x", sym + "e", " " + sym, sym + "\n", sym + " ", sym + "\t"}:
                if bad != sym:
                    L("sym", T, {"s": bad}, lambda: t.symbol(bad))
                    L("iso", T, {"form": "sym", "sym": bad, "a": 0}, lambda: t.isotope(bad))
            for bad in {name.capitalize(), name + "s", sym, name + "\n"}:
                L("name", T, {"s": bad}, lambda: t.name(bad))
            # ---- keys of one route offered to another: a name is not a symbol, a symbol is not a name
            for bad in (name, name.capitalize()):
                L("sym", T, {"s": bad}, lambda: t.symbol(bad))
                L("attr", T, {"s": bad}, lambda: getattr(t, bad))
                L("iso", T, {"form": "sym", "sym": bad, "a": 0}, lambda: t.isotope(bad))
            if isos:
                s_ = "%d-%s" % (isos[0], name)
                L("iso", T, {"form": "a-sym", "sym": name, "a": isos[0]}, lambda: t.isotope(s_))
            # ---- isotopes
            lo, hi = (min(isos), max(isos)) if isos else (1, 1)
            cand = sorted(set(isos) | {lo - 1, hi + 1, 0, -1, hi + 100} | {a + 1 for a in isos} )
            for a in cand:
                L("elA", T, {"z": z, "a": a}, lambda: t[z][a])
                if a > 0:
                    s = "%d-%s" % (a, sym)
                    L("iso", T, {"form": "a-sym", "sym": sym, "a": a}, lambda: t.isotope(s))
            for s, inp in [("%d-%s\n" % (lo, sym), {"form": "bad", "sym": sym, "a": lo}),
                           ("%d-%s " % (lo, sym), {"form": "bad", "sym": sym, "a": lo}),
                           ("%s-%d" % (sym, lo), {"form": "bad", "sym": sym, "a": lo}),
                           ("%d-%s-1" % (lo, sym), {"form": "bad", "sym": sym, "a": lo}),
                           ("x-%s" % sym, {"form": "bad", "sym": sym, "a": 0}),
                           ("%d-%s" % (lo, sym.lower()), {"form": "a-sym", "sym": sym.lower(), "a": lo})]:
                L("iso", T, inp, lambda: t.isotope(s))
            # ---- ions of the element and of its isotopes
            qs = sorted(set(ions) | {0, 9, -9} | {q + 1 for q in ions} | {-q for q in ions})
            for q in qs:
                L("ion", T, {"z": z, "a": 0, "q": q}, lambda: t[z].ion[q])
            # ---- charges that are not integers are not charges (no rounding to a neighbouring ion)
            for q in ions[:2]:
                for bad in (q + 0.5, q - 0.25):
                    L("ionx", T, {"z": z, "a": 0, "q": repr(bad)}, lambda: t[z].ion[bad])
                if isos:
                    L("ionx", T, {"z": z, "a": isos[0], "q": repr(q + 0.5)}, lambda: t[z][isos[0]].ion[q + 0.5])
            for a in isos:
                if ions and rng.random() <= iso_ion_fraction:
                    for q in ions:
                        L("ion", T, {"z": z, "a": a, "q": q}, lambda: t[z][a].ion[q])
                    badq = rng.choice([0, 9, -9, max(ions) + 1])
                    if badq not in ions:
                        L("ion", T, {"z": z, "a": a, "q": badq}, lambda: t[z][a].ion[badq])
            # ---- second pass: same keys again through other routes, pickle, deepcopy, change_table
            atoms = [(0, 0)] + [(a, 0) for a in isos] + [(0, q) for q in ions]
            atoms += [(a, q) for a in isos for q in ions if rng.random() <= 0.15 * iso_ion_fraction]

            def get(tt, a, q):
                o = tt[z]
                if a:
                    o = o[a]
                if q:
                    o = o.ion[q]
                return o
            for a, q in atoms:
                inp = {"z": z, "a": a, "q": q}
                L("again", T, inp, lambda: get(t, a, q))
                L("pickle", T, inp, lambda: pickle.loads(pickle.dumps(get(t, a, q))))
                if rng.random() < 0.3:
                    L("deepcopy", T, inp, lambda: copy.deepcopy(get(t, a, q)))
                    L("pickle2", T, inp, lambda: pickle.loads(pickle.dumps(get(t, a, q), protocol=2)))
                L("chg", T, dict(inp, to=other_name), lambda: core.change_table(get(t, a, q), other))
    # D and T aliases, neutron
    if 1 in zs:
        for T, t in tabs:
            for s, nm in (("D", "deuterium"), ("T", "tritium")):
                L("sym", T, {"s": s}, lambda: t.symbol(s))
                L("attr", T, {"s": s}, lambda: getattr(t, s))
                L("name", T, {"s": nm}, lambda: t.name(nm))
                L("iso", T, {"form": "sym", "sym": s, "a": 0}, lambda: t.isotope(s))
                L("iso", T, {"form": "a-sym", "sym": s, "a": 4}, lambda: t.isotope("4-" + s))
                L("iso", T, {"form": "a-sym", "sym": s, "a": 2}, lambda: t.isotope("2-" + s))
                if T == "public":
                    L("mod", T, {"s": s}, lambda: getattr(periodictable, s))
                    L("mod", T, {"s": nm}, lambda: getattr(periodictable, nm))
    # ---- isotopes created on demand after the table has been inspected (other loaders call add_isotope)
    for z in zs[:3]:
        sh = shape[str(z)]
        if not sh["isos"]:
            continue
        sym = sh["sym"]
        newA = max(sh["isos"]) + 2
        for T, t in tabs:
            el = t[z]
            evs.append({"ev": "iterIso", "T": T, "z": z, "res": [iso.isotope for iso in el], "prop": list(el.isotopes)})
            L("iso", T, {"form": "a-sym", "sym": sym, "a": newA}, lambda: t.isotope("%d-%s" % (newA, sym)))
            el.add_isotope(newA)
            evs.append({"ev": "addiso", "T": T, "z": z, "a": newA})
            L("elA", T, {"z": z, "a": newA}, lambda: el[newA])
            L("iso", T, {"form": "a-sym", "sym": sym, "a": newA}, lambda: t.isotope("%d-%s" % (newA, sym)))
            evs.append({"ev": "iterIso", "T": T, "z": z, "res": [iso.isotope for iso in el], "prop": list(el.isotopes)})
            L("pickle", T, {"z": z, "a": newA, "q": 0}, lambda: pickle.loads(pickle.dumps(el[newA])))
            if sh["ions"]:
                q = sh["ions"][0]
                L("ion", T, {"z": z, "a": newA, "q": q}, lambda: el[newA].ion[q])
                L("chg", T, {"z": z, "a": 0, "q": q, "to": [x for x in tabs if x[0] != T][0][0]},
                  lambda: core.change_table(el.ion[q], [x for x in tabs if x[0] != T][0][1]))
    if arg.get("misc", False):
        # ---- a table that is inspected BEFORE its isotopes are loaded
        t2 = core.PeriodicTable("T2")
        probe = [z for z in (1, 8, 26, 28, 92) if str(z) in shape]
        for phase in (0, 1):
            for z in probe:
                sh = shape[str(z)]
                sym = sh["sym"]
                L("Z", "T2", {"z": z}, lambda: t2[z])
                L("sym", "T2", {"s": sym}, lambda: t2.symbol(sym))
                evs.append({"ev": "iterIso", "T": "T2", "z": z, "res": [iso.isotope for iso in t2[z]], "prop": list(t2[z].isotopes)})
                for a in sh["isos"][:3] + [2, 3]:
                    L("elA", "T2", {"z": z, "a": a}, lambda: t2[z][a])
                    L("iso", "T2", {"form": "a-sym", "sym": sym, "a": a}, lambda: t2.isotope("%d-%s" % (a, sym)))
            for s_, nm in (("D", "deuterium"), ("T", "tritium")):
                L("sym", "T2", {"s": s_}, lambda: t2.symbol(s_))
                L("name", "T2", {"s": nm}, lambda: t2.name(nm))
            if phase == 0:
                mass.init(t2)
                evs.append({"ev": "tabinit", "T": "T2"})
        for T, t in tabs:
            for bad in (-1, 119, 120, 1000):
                L("Z", T, {"z": bad}, lambda: t[bad])
            for bad in ("Xx", "", "n2", "Fe2", "Q", "J"):
                L("sym", T, {"s": bad}, lambda: t.symbol(bad))
                L("iso", T, {"form": "sym", "sym": bad, "a": 0}, lambda: t.isotope(bad))
            for bad in ("unobtainium", "", "Iron", "IRON"):
                L("name", T, {"s": bad}, lambda: t.name(bad))
        # an unregistered table name cannot be restored
        evs.append({"ev": "unreg", "res": _call(lambda: core._make_element("nosuchtable", 1))})
        evs.append({"ev": "dup", "res": _call(lambda: core.PeriodicTable("T1"))})
    return evs
