"""Generate Dec test vectors with Python decimal and check them in TLC."""
import json, os, random, sys, tempfile
from decimal import Decimal, getcontext
sys.path.insert(0, os.path.dirname(os.path.dirname(os.path.abspath(__file__))))
from ptv import dec, tlc
getcontext().prec = 120

def rnd(r):
    kind = r.random()
    if kind < 0.1:
        return Decimal(0)
    digits = r.randint(1, 30)
    n = r.randint(1, 10 ** digits)
    e = r.randint(-40, 20)
    return Decimal(n) * Decimal(10) ** e * r.choice([1, -1])

def vectors(seed=1, n=40):
    r = random.Random(seed)
    D = dec.to_dec
    v = []
    for _ in range(n):
        a, b = rnd(r), rnd(r)
        if r.random() < 0.3:   # near-cancellation
            b = a + Decimal(r.randint(-5, 5)) * Decimal(10) ** (a.adjusted() - r.randint(10, 28)) if a else b
        v.append(dict(op="add", a=D(a), b=D(b), want=D(a + b)))
        v.append(dict(op="sub", a=D(a), b=D(b), want=D(a - b)))
        v.append(dict(op="mul", a=D(a), b=D(b), want=D(a * b)))
        v.append(dict(op="cmp", a=D(a), b=D(b), n=(a > b) - (a < b)))
        v.append(dict(op="half", a=D(a), want=D(a / 2)))
        k = r.choice([2, 3, 7, 10, 24, 100, 3600, 9999, 12345, 200000])
        v.append(dict(op="divint", a=D(a), n=k, want=D(a / k)))
        if a != 0:
            v.append(dict(op="recip", a=D(a), want=D(1 / a)))
            v.append(dict(op="div", a=D(b), b=D(a), want=D(b / a)))
    for x in ["0", "1", "-1", "0.5", "-0.001", "1e-9", "-3.7e-12", "10", "-10", "100.25", "-745.2",
              "-5000", "-20000", "3.25e-20", "-0.0039", "-0.00390625", "700", "-1e-30"]:
        d = Decimal(x)
        w = d.exp()
        if d < -12000:
            w = Decimal(0)
        v.append(dict(op="exp", a=D(d), want=D(w)))
        if d <= 0:
            v.append(dict(op="expm1n", a=D(-d), want=D(1 - d.exp())))
    def _cos(x):
        x = Decimal(x); sm = Decimal(0); t = Decimal(1); j = 0
        while abs(t) > Decimal(10) ** -75:
            sm += t; j += 1; t = -t * x * x / ((2 * j - 1) * (2 * j))
        return sm
    for x in ["0", "0.5", "1", "1.0471975511965977461542144610931676280657", "1.5707963267948966192313216916397514420985846996875529",
              "2.0943951023931954923084289221863352561314", "3.14159265358979323846264338327950288", "0.001", "2.5",
              "0.01745329251994329576923690768488612713", "-1.2"]:
        v.append(dict(op="cos", a=D(x), want=D(_cos(x))))
    v.append(dict(op="close", a=D("1"), b=D("1.0000000001"), n=-9, want=D(1)))
    v.append(dict(op="close", a=D("1"), b=D("1.00000001"), n=-9, want=D(0)))
    v.append(dict(op="close", a=D("-3e10"), b=D("-3.0000000000001e10"), n=-12, want=D(1)))
    v.append(dict(op="close", a=D("0"), b=D("0"), n=-12, want=D(1)))
    v.append(dict(op="close", a=D("0"), b=D("1e-300"), n=-12, want=D(0)))
    for nn, k in [(1, 0), (1, -9), (1, 3), (25, -7), (123456, 5), (7, -14), (9999, 2), (1, -300)]:
        v.append(dict(op="sci", n=nn, k=k, want=D(Decimal(nn) * Decimal(10) ** k)))
    for nn in [0, 1, -1, 9999, 10000, 123456789, -2000000000]:
        v.append(dict(op="fromint", n=nn, want=D(nn)))
    v.append(dict(op="pi", want=D("3.14159265358979323846264338327950288419716939937510582097494459230781640628620899")))
    v.append(dict(op="ln2", want=D("0.693147180559945309417232121458176568075500134360255254120680009493393621969694715605863326996418687")))
    return v

def main():
    vs = vectors()
    d = tempfile.mkdtemp(prefix="ptv-dectest-")
    try:
        p = os.path.join(d, "vec.ndjson")
        with open(p, "w") as f:
            for t in vs:
                f.write(json.dumps(t) + "\n")
        res = tlc.run("DecTest", "SPECIFICATION Spec\nPOSTCONDITION Done\n", env={"TRACE_FILE": p}, timeout=600)
        recs = res.printed()
        bad = [r for r in recs if not r["ok"]]
        print("dectest: %d vectors, %d verdicts, %d failed, %.1fs" % (len(vs), len(recs), len(bad), res.wall))
        for b in bad[:20]:
            print("  FAIL", b, json.dumps(vs[b["i"] - 1])[:300])
        if len(recs) != len(vs) or bad or res.rc != 0:
            print(res.out[-3000:])
            return 2
        return 0
    finally:
        import shutil; shutil.rmtree(d, ignore_errors=True)

if __name__ == "__main__":
    sys.exit(main())
