"""C13: printing a formula and parsing it back gives the same formula."""
import random
from .. import forkrun, gramgen, tracecheck, rawtables, atoms as atomsmod

MULTS = [2, 3, 0.5, 0.1, 1.0 / 3, 1e-3, 1e-4, 1.2345e-5, 1e-9, 1234.5, 99999.95, 999999.5, 1e6, 1234567.89, 1e9, 1.5e12,
         0.00012345678, 100000, 123456, 1234567, 0.999999, 1.0000001, 7.0, 2.5e-7]


def run(ctx):
    quick = ctx.tier == "quick"
    rng = random.Random(ctx.seed)
    uni = atomsmod.universe(rng, 300 if quick else 2000)
    rot = atomsmod.Rotor(uni, rng)
    rot.weights = [("el", 3), ("iso", 4), ("ion", 3), ("isoion", 3), ("alias", 3)]
    recs = gramgen.generate(ctx, "structures", 3, 2, 1, 2, ["", "2"], [" "], [])
    recs += gramgen.generate(ctx, "deep", 7, 3, 3, 4, ["", "2", "3", "10", "0.5", "1.5", ".25", "3.", "2.0"],
                             [" ", "+", " + "], [], simulate=(40 if quick else 800), sim_depth=40)
    rng.shuffle(recs)
    if quick:
        recs = recs[:6000]
    items = []

    def add(expr, T=None):
        # every second formula is built with all its intermediate operands printed / Hill-ordered first
        items.append({"id": len(items), "expr": expr, "T": T, "touch": len(items) % 2 == 1})
    strings = []
    for r in recs:
        ats = rot.distinct(r["nat"])
        if len(ats) < r["nat"]:
            continue
        s, _ = gramgen.instantiate(r, ats, rng)
        strings.append(s)
        add(["str", s], "T1" if rng.random() < 0.1 else None)
    # single atoms of every kind, through every constructor
    for kind in ("alias", "el", "iso", "ion", "isoion"):
        pool = uni[kind]
        for a in (pool if (not quick or kind == "alias") else rng.sample(pool, min(len(pool), 150))):
            c = rng.choice([1, 2, 0.5, 1e-5, 2e6])
            add(["atom", a.z, a.a, a.q])
            add(["dict", [[a.z, a.a, a.q, c]]])
            add(["seq", [[c, [a.z, a.a, a.q]], [1, [[2, [1, 2, 1]], [1, [8, 0, -2]]]]]])
    # arithmetic with counts of every magnitude
    narith = 1500 if quick else 20000
    for i in range(narith):
        a, b = rng.choice(strings), rng.choice(strings)
        m1, m2 = rng.choice(MULTS), rng.choice(MULTS)
        form = i % 5
        if form == 0:
            add(["mul", m1, ["str", a]])
        elif form == 1:
            add(["add", ["mul", m1, ["str", a]], ["str", b]])
        elif form == 2:
            add(["mul", m2, ["add", ["mul", m1, ["str", a]], ["str", b]]])
        elif form == 3:
            add(["add", ["str", a], ["mul", m1, ["mul", m2, ["str", b]]]])
        else:
            add(["copy", ["mul", m1, ["add", ["str", a], ["str", b]]]])
    # mixtures (dilute ones print very large counts)
    comps = ["H2O@1", "NaCl@2.16", "D2O@1n", "Fe2O3@5.24", "C12H22O11@1.59", "Ca{2+}Cl{-}2@2.15", "D{+}Cl{-}@1.2",
             "T2O@1.2", "Fe[56]{3+}2O{2-}3@5", "SiO2@2.2", "Au", "Co"]
    for i in range(300 if quick else 5000):
        n = rng.choice([2, 2, 3])
        parts = [[["str", rng.choice(comps)], rng.choice([1, 1, 10, 1e-3, 1e-7, 1e5, 0.37, 1e9])] for _ in range(n)]
        add([rng.choice(["mixw", "mixv"]), parts])
    # the empty formula, before and after totals have been accumulated onto empty formulas in the same interpreter
    # (32 consecutive items: one for each batch)
    nb = 32
    while len(items) % nb:
        add(["none"])
    for e in (["str", ""], ["iadd", ["str", ""], ["str", "H2O"]], ["iadd", ["none"], ["str", "NaCl"]], ["none"], ["str", ""],
              ["mixw", [[["str", "H2O@1"], 0], [["str", "NaCl@2.16"], 0]]], ["add", ["str", ""], ["str", "D2O"]]):
        for _ in range(nb):
            add(e)
    batches = [items[i::nb] for i in range(nb)]
    outs = forkrun.map_fresh("ptv.formexec", "observe_print", [{"items": b} for b in batches])
    events = []
    byid = {}
    skipped = 0
    for b, (st, res) in zip(batches, outs):
        if st != "ok":
            ctx.error("print batch failed: " + res[-600:])
            return
        for it, ev in zip(b, res):
            byid[it["id"]] = (it, ev)
            if "build_exc" in ev or "skip" in ev:
                skipped += 1
                continue
            events.append({"id": ev["id"], "orig": ev["orig"], "chars": ev["chars"], "back": ev["back"],
                           "reprok": ev["reprok"], "nameok": ev["nameok"]})
            ctx.distinct(ev["str"])
    eb = rawtables.element_base()
    header = {"symz": dict((v[1], z) for z, v in eb.items())}
    rejected = tracecheck.validate(ctx, "Trace_Print", header, events, name="Trace_Print")
    ctx.count("formulas", len(events))
    ctx.cov["skipped_unbuildable"] = skipped
    for i, x in sorted(rejected.items()):
        it, ev = byid[i]
        ctx.violation({"kind": "print", "clause": x["clause"], "expr": it["expr"], "str": ev["str"],
                       "back": ev["back"].get("exc", "parsed"), "shape": shape_of(ev["str"])})
    for e in events[:3] + events[-3:]:
        ctx.sample({"expr": byid[e["id"]][0]["expr"], "str": byid[e["id"]][1]["str"]})
    ctx.cov["rule"] = ("formulas built by parsing TLC-generated derivations (instantiated over elements, isotopes, D/T, ions, isotope "
                       "ions), by +/n* arithmetic with multipliers from 1e-9 to 1e12, by the atom/dict/sequence constructors and "
                       "by mix_by_weight/volume; each is printed, lexed, re-parsed by the code; TLC checks grammar membership of the "
                       "printed tokens and equality to six significant digits; distinct = distinct printed strings")


def shape_of(s):
    import re
    if re.search(r"[0-9]e[+-]?[0-9]", s):
        return "exponent-count"
    if re.search(r"[DT]\[[23]\]", s):
        return "alias-printed-with-isotope"
    return "other"


def replay(ctx, path):
    import json
    with open(path) as f:
        data = json.load(f)
    items = [{"id": i, "expr": v["expr"]} for i, v in enumerate(data["violations"]) if "expr" in v]
    st, res = forkrun.call_fresh("ptv.formexec", "observe_print", {"items": items})
    for it, r in zip(items, res):
        print(it["expr"], "->", r.get("str"), r.get("back", {}).get("exc", "reparsed"))
    return 0
