"""C12: density, natural density, isotope substitution and cell volume are consistent."""
import random
from .. import atoms as atomsmod, rawtables
from .c11 import run_items


def tasks(ctx, quick):
    rng = random.Random(ctx.seed + 12)
    uni = atomsmod.universe(rng, 300 if quick else 2000)
    rot = atomsmod.Rotor(uni, rng)
    rot.weights = [("el", 3), ("iso", 4), ("ion", 3), ("isoion", 3), ("alias", 2)]
    items = []

    def add(t):
        t["id"] = "t%d" % len(items)
        items.append(t)

    def compound(nmin=1, nmax=4):
        ats = rot.distinct(rng.randint(nmin, nmax))
        return [[a.z, a.a, a.q, rng.choice([1, 2, 3, 0.5, 12, 7])] for a in ats]
    hows = ["kw_density", "kw_natural", "attr_density", "attr_natural", "tag", "tag_i", "tag_n", "str_kw_natural", "str_kw_density"]
    n = 600 if quick else 6000
    for i in range(n):
        comp = compound()
        how = hows[i % len(hows)]
        add({"kind": "natd", "compound": ["seq", [[c, [z, a, q]] for z, a, q, c in comp]], "how": how,
             "value": rng.choice([1.0, 0.5, 2.16, 7.87, 19.3, 0.001, rng.uniform(0.01, 25)])})
        if i % 4 == 2:
            items[-1]["T"] = rng.choice(["T2", "T2", "T1"])       # T2: a table whose owner changed its masses
    # density tags on parenthesised mixtures
    for i in range(40 if quick else 400):
        add({"kind": "natd", "compound": ["seq", [[c, [z, a, q]] for z, a, q, c in compound(1, 3)]], "how": ["group_tag_n", "group_tag"][i % 2],
             "pct": rng.choice([10, 40, 75.5]), "second": rng.choice(["H2O", "D2O", "NaCl", "Fe[56]2O3"]),
             "value": rng.choice([1.0, 1.05, 2.16, 7.87, rng.uniform(0.5, 20)])})
    # densities after an in-place change of the composition
    for i in range(60 if quick else 600):
        add({"kind": "natd", "compound": ["seq", [[c, [z, a, q]] for z, a, q, c in compound()]], "how": ["iadd_density", "iadd_natural"][i % 2],
             "before": rng.choice([1.0, 2.5]), "other": ["dict", compound(1, 3)], "value": rng.choice([1.0, 0.5, 7.87, rng.uniform(0.01, 25)])})
    # single atoms default to the atom's density, compounds to none
    for kind in ("el", "iso", "ion", "isoion", "alias"):
        pool = uni[kind]
        for a in (pool if not quick else rng.sample(pool, min(len(pool), 60))):
            add({"kind": "natd", "compound": ["atom", a.z, a.a, a.q], "how": "none"})
    for i in range(40):
        add({"kind": "natd", "compound": ["dict", compound(2, 3)], "how": "none"})
    # ... however the single atom is written: counted, grouped, repeated, nested
    for i in range(60 if quick else 600):
        a = rot.next()
        at = [a.z, a.a, a.q]
        shape = i % 5
        if shape == 0:
            comp = ["seq", [[3, [[2, at]]]]]
        elif shape == 1:
            comp = ["seq", [[2, at], [1, at]]]
        elif shape == 2:
            comp = ["seq", [[1, [[1, [[0.5, at]]]]]]]
        elif shape == 3:
            comp = ["str", "%s%s" % (rng.choice(["2", "3", "0.5"]), a.render() + rng.choice(["", "2"]))]
        else:
            comp = ["str", "(%s%s)%s" % (a.render(), rng.choice(["", "2"]), rng.choice(["3", "", "2"]))]
        add({"kind": "natd", "compound": comp, "how": "none"})
    # substitution
    eb, isos = uni["eb"], uni["isos"]
    m = 500 if quick else 5000
    for i in range(m):
        comp = compound(1, 4)
        src = rng.choice(comp)[:3] if i % 7 else [2, 3, 0]            # sometimes a source that is absent
        mode = i % 5
        z = src[0]
        if mode == 0 and isos.get(z):
            tgt = [z, rng.choice(isos[z]), src[2]]                      # another isotope of the same element
        elif mode == 1:
            tgt = [z, 0, src[2]]                                        # the natural element
        elif mode == 2 and len(comp) > 1:
            other = rng.choice([c for c in comp if c[:3] != src] or comp)
            tgt = other[:3]                                             # a target that is already present
        elif mode == 3 and eb[z][2]:
            tgt = [z, src[1], rng.choice(eb[z][2])]                     # another charge state
        else:
            a = rot.next()
            tgt = [a.z, a.a, a.q]
        add({"kind": "subst", "compound": ["dict", comp], "density": (rng.choice([1.0, 2.5, 7.9]) if i % 4 else None),
             "src": src, "tgt": tgt, "p": rng.choice([0, 0.25, 0.5, 1, 1, rng.random()])})
    add({"kind": "subst", "compound": ["str", "C3H4H[1]NO"], "density": 1.29, "src": [1, 1, 0], "tgt": [1, 2, 0], "p": 0.5})
    # volume
    with_radius = [z for z in range(1, 97)]
    for i in range(120 if quick else 1500):
        zs = rng.sample(with_radius, rng.randint(1, 4))
        comp = [[z, 0, 0, rng.choice([1, 2, 3, 4, 0.5])] for z in zs]
        if i % 2 == 1:
            # several species of one element (HDO, Fe{2+}Fe{3+}2O4): each atom takes its place, whatever it shares with another
            z = rng.choice(zs)
            if isos.get(z) and (i % 4 == 1 or not eb[z][2]):
                comp.append([z, rng.choice(isos[z]), 0, rng.choice([1, 2, 0.5])])
            elif eb[z][2]:
                comp.append([z, 0, rng.choice(eb[z][2]), rng.choice([1, 2, 3])])
            rng.shuffle(comp)
        if i % 3 == 0:
            pf = rng.choice(["cubic", "bcc", "hcp", "fcc", "diamond", "BCC", "Hcp"])
        else:
            pf = rng.choice([0.5, 0.74, 1.0, 0.34, rng.uniform(0.1, 1)])
        add({"kind": "vol", "kind2": "packing", "compound": ["dict", comp], "pf": pf, "positional": i % 2 == 0})
        a = rng.choice([2.8664, 5.43, 3.0, 10.2, rng.uniform(1, 20)])
        shape = i % 4
        t = {"kind": "vol", "kind2": "lattice", "compound": ["dict", comp], "a": a}
        if shape == 1:
            t.update(b=rng.uniform(1, 20), c=rng.uniform(1, 20))
        elif shape == 2:
            t.update(c=rng.uniform(1, 20), gamma=120.0, alpha=90.0, beta=90.0)
        elif shape == 3:
            t.update(b=rng.uniform(1, 20), c=rng.uniform(1, 20), alpha=rng.uniform(60, 110), beta=rng.uniform(60, 110), gamma=rng.uniform(60, 110))
        if shape == 0 and i % 8 == 0:
            t.update(alpha=rng.choice([60.0, 90.0, 75.5]))
        if (len(t) > 4 or shape == 0) and i % 2:
            t["a_positional"] = True
        add(t)
        # any subset of the angles may be given: beta and gamma default to alpha, alpha to 90 degrees
        t2 = {"kind": "vol", "kind2": "lattice", "compound": ["dict", comp], "a": a, "b": rng.uniform(1, 20)}
        for nm in ("alpha", "beta", "gamma"):
            if rng.random() < 0.5:
                t2[nm] = rng.choice([60.0, 75.0, 80.5, 95.0, 100.0, 110.0, 90.0])
        t2["a_positional"] = bool(i % 3 == 0 and len(t2) > 5)
        add(t2)
    return items


def run(ctx):
    quick = ctx.tier == "quick"
    run_items(ctx, tasks(ctx, quick), "density")
    ctx.cov["rule"] = ("formulas over natural elements, isotopes, D/T, ions and isotope ions with the density given nine ways (keywords, attributes, "
                       "@d / @di / @dn tags, string + keyword); single-atom defaults for every kind of atom; substitutions (other isotope, natural "
                       "element, target already present, other charge state, source absent, density unknown, portions 0..1); volumes by packing "
                       "factor name / number and by lattice parameters (cubic, orthorhombic, hexagonal, triclinic); TLC checks the ratio law "
                       "natural_density * M = density * M_natural with the masses served, the substitution laws and V^2 with Dec.Cos")


def replay(ctx, path):
    import json
    with open(path) as f:
        data = json.load(f)
    run_items(ctx, [v["task"] for v in data["violations"] if v.get("task")], "density")
    return ctx.finish()
