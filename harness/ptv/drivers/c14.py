"""C14: activation equals the solution of the documented capture/decay chains."""
import random
from .. import forkrun, tracecheck, actexec


def conditions(rng):
    return {"mass": rng.choice([1e-6, 1e-3, 1.0, 15.0, 1e3]), "fluence": rng.choice([1e2, 1e5, 1e8, 1e11, 1e13, 1e16, 3.7e9]),
            "cd": rng.choice([0.0, 0.0, 1.0, 70.0, 0.5]), "fast_ratio": rng.choice([0.0, 0.0, 50.0, 10.0]),
            "exposure": rng.choice([1e-3, 0.1, 1.0, 10.0, 100.0, 1e4, 3.3]), "rests": sorted(rng.sample([0, 1, 24, 360, 1e5, 0.5, 1e3], 2)),
            "late": rng.random() < 0.3}


def run_items(ctx, items, label):
    nb = 32
    outs = forkrun.map_fresh("ptv.actexec", "observe", [{"items": items[i::nb]} for i in range(nb)])
    events = []
    task = dict((t["id"], t) for t in items)
    for st, evs in outs:
        if st != "ok":
            ctx.error("observe child failed: " + evs[-600:])
            return
        for e in evs:
            if e["ev"] == "harness_exc":
                ctx.violation({"kind": label, "clause": "OneRecordPerTableRow" if "row count mismatch" in e["exc"] else "HarnessFailed", "task": task.get(e["id"].split("#")[0]), "exc": e["exc"]})
            else:
                events.append(e)
                ctx.distinct(e["id"])
    rejected = tracecheck.validate(ctx, "Trace_Act", {"hdr": 1}, events, name="Trace_Act", min_per_shard=5)
    ctx.count("events", len(events))
    byid = dict((e["id"], e) for e in events)
    for i, x in sorted(rejected.items()):
        e = byid.get(i, {})
        rec = {"kind": label, "clause": x["clause"], "id": i, "task": task.get(i.split("#")[0]), "line": e.get("line")}
        if e.get("ev") == "act":
            rec["reaction"] = e["row"]["reaction"]
            rec["regime"] = regime(e)
        if e.get("ev") == "rel":
            # "<task>#<row>:<relation>": the regime of the row's own evaluation (a relation between garbage values fails too)
            rec["regime"] = regime(byid.get(i.rsplit(":", 1)[0], {"row": {}, "cond": {}}))
        if e.get("ev") == "decay":
            rec["frac"] = e.get("frac")
            rec["rests"] = e.get("rests")
            rec["res"] = e["res"].get("exc", "time")
            rec["regime"] = decay_regime(e)
        if e.get("ev") == "restlist":
            # "<task>#rl<list>:<target>" relates "<task>#0:<target>" and "<task>#<list>:<target>"
            base, rest = i.split("#rl")
            li, ti = rest.split(":")
            rec["regime"] = decay_regime(byid.get("%s#%s:%s" % (base, li, ti), {}))
        ctx.violation(rec)
    for e in events[:3]:
        ctx.sample({"id": e["id"], "task": task.get(e["id"].split("#")[0])})
    return events


def decay_regime(e):
    """A rest-time list without 0 loses every product whose activity at the first rest time is no longer a normal
    double (zero or denormal: A0 * exp(-lambda*T0) < 2.2e-308), or whose back-extrapolation factor exp(lambda*T0)
    overflows (lambda*T0 > 709.7)."""
    from ..dec import to_decimal
    from decimal import Decimal
    try:
        To = min(e["rests"])
        if To <= 0:
            return "general"
        target = to_decimal(e["target"])
        for p in e["products"]:
            a0, T = to_decimal(p["A0"]), to_decimal(p["Thalf"])
            x = Decimal("0.6931471805599453") / T * Decimal(repr(To))
            if a0 > target * Decimal("1e-9") and (x > Decimal("709.7") or a0 * (-x).exp() < Decimal("2.2250738585072014e-308")):
                return "short-lived-product-lost-before-first-rest-time"
    except Exception:
        pass
    return "general"


def regime(e):
    """Which numerical regime of the burn-up formula an event falls in (used in known-finding signatures)."""
    from ..dec import to_decimal
    r, c = e["row"], e["cond"]
    try:
        cd = to_decimal(c["cd"])
        sigma = to_decimal(r["thermalXS"]) + (to_decimal(r["resonance"]) / cd if cd >= 1 else 0)
        flux = to_decimal(c["fluence"]) / to_decimal(c["fast_ratio"]) if r["fast"] else to_decimal(c["fluence"])
        U = flux * sigma * to_decimal(c["exposure"]) * 3600 / 10 ** 24
        sp = to_decimal(r["thermalXS_parent"]) + (to_decimal(r["resonance_parent"]) / cd if cd >= 1 else 0)
        from decimal import Decimal
        lam = Decimal("0.6931471805599453") / to_decimal(r["Thalf_hrs"])
        V = (to_decimal(c["fluence"]) * sp * 3600 / 10 ** 24 + lam) * to_decimal(c["exposure"])
        if r["reaction"] not in ("b", "2n") and abs(U) < Decimal("1e-10") and abs(V) < Decimal("1e-10"):
            return "small-argument"
        if r["reaction"] == "b":
            lp = Decimal("0.6931471805599453") / to_decimal(r["Thalf_parent"])
            t = to_decimal(c["exposure"])
            if max(lam * t, lp * t) < Decimal("1e-5"):
                return "b-second-order-cancellation"
        if r["reaction"] == "2n":
            # condition number of the three-exponential sum: how many digits the double-precision evaluation of the
            # documented closed form must lose
            t = to_decimal(c["exposure"])
            lp = Decimal("0.6931471805599453") / to_decimal(r["Thalf_parent"])
            a, b, cc = flux * sigma * 3600 / 10 ** 24, to_decimal(c["fluence"]) * sp * 3600 / 10 ** 24 + lp, lam
            terms = [(-a * t).exp() / ((b - a) * (cc - a)), (-b * t).exp() / ((a - b) * (cc - b)), (-cc * t).exp() / ((a - cc) * (b - cc))]
            tot = abs(sum(terms))
            if tot == 0 or max(abs(x) for x in terms) / tot > Decimal("1e6"):
                return "2n-cancellation"
    except Exception:
        pass
    return "general"


def tasks(ctx, quick):
    rng = random.Random(ctx.seed + 14)
    rows, order = actexec.raw_rows()
    isos = sorted(rows)
    items = []
    # half of the 32 fresh interpreters start with an explicit activation.init(elements), the others load lazily
    for k in range(16):
        items.append({"id": "t%d" % len(items), "kind": "init_first"})
    ncond = 2 if quick else 16
    from ..dec import to_decimal
    for (Z, A) in isos:
        for k in range(ncond):
            items.append({"id": "t%d" % len(items), "kind": "act", "iso": [Z, A], "cond": conditions(rng), "rel": (k == 0)})
        # the high-flux, long-exposure corner for strong absorbers (burn-up arguments in the hundreds)
        big = max(float(to_decimal(r[f])) for r in rows[(Z, A)] for f in ("thermalXS", "resonance", "thermalXS_parent", "resonance_parent"))
        if big > 300:
            for fl, ex in ([(1e16, 1e4)] if quick else [(1e16, 1e4), (1e15, 1e4), (1e16, 1e3), (1e15, 1e3)]):
                c = conditions(rng)
                c.update(fluence=fl, exposure=ex, cd=rng.choice([0.0, 1.0, 70.0]))
                items.append({"id": "t%d" % len(items), "kind": "act", "iso": [Z, A], "cond": c, "rel": False})
    # records edited by the owner and restored with reload=True; isotopes reached through one of their ions
    for k in range(24 if quick else 120):
        Z, A = isos[(k * 37 + 5) % len(isos)]
        t = {"id": "t%d" % len(items), "kind": "act", "iso": [Z, A], "cond": conditions(rng), "rel": False}
        t["edit_reload" if k % 3 == 0 else "via_ion"] = True
        items.append(t)
    forms = ["Co", "Co30Fe70", "H2O", "SiO2", "Au", "NaCl", "Gd2O3", "Eu", "Dy", "C12H22O11", "Co[59]", "Fe[58]2O3", "AgCl", "In", "Mn0.5Ni0.5", "U", "LiF",
             "HDO", "Li[6]3Li7F10", "Co[59]Co2", "Fe[58]Fe9O4", "Cu[63]Cu", "Ag[107]AgCl2", "Eu[151]EuO3", "W[186]W",
             "Co[59]{2+}", "Fe[58]{3+}2O3", "Na{+}Cl{-}", "Cu[63]{2+}O{2-}"]
    for i in range(40 if quick else 300):
        c = conditions(rng)
        if i % 2:
            c["rests"] = rng.sample([0, 1, 24, 360, 0.5, 1e3, 5], rng.randint(2, 4))       # as the caller wrote them: any order
        abundance = "IAEA1987" if i % 3 == 1 else None
        items.append({"id": "t%d" % len(items), "kind": "sample", "formula": forms[i % len(forms)] if i < len(forms) else rng.choice(forms), "cond": c})
        if abundance:
            items[-1]["abundance"] = abundance
    return items


def run(ctx):
    quick = ctx.tier == "quick"
    run_items(ctx, tasks(ctx, quick), "activation")
    ctx.cov["rule"] = ("every isotope with rows in activation.dat (all 513 rows, read from the raw file) x seeded conditions (mass 1e-6..1e3 g, "
                       "fluence 1e2..1e16, Cd ratio 0 / 0.5 / 1 / 70, fast ratio 0 / 10 / 50, exposure 1e-3..1e4 h, two rest times up to 1e5 h); "
                       "each product's activity is compared by TLC with the exact chain solution at 60 digits; relations: mass x 7.5, rest law, "
                       "exposure x 3; Sample.calculate_activation against the per-isotope sums; distinct = events")


def replay(ctx, path):
    import json
    with open(path) as f:
        data = json.load(f)
    seen, items = set(), []
    for v in data["violations"]:
        t = v.get("task")
        if t and t["id"] not in seen:
            seen.add(t["id"])
            items.append(t)
    run_items(ctx, items, "activation")
    return ctx.finish()
