"""C04: neutron results obey density, cell-size, grouping, unit and vector invariances."""
import random
from .. import neutgen
from .c03 import run_items, WAVELENGTHS


def regroup(rng, comp):
    """Same atoms, different grouping: nested (count, fragment) sequence with the same totals."""
    items = [[c, [z, a, q]] for z, a, q, c in comp]
    rng.shuffle(items)
    if len(items) >= 2:
        cut = rng.randint(1, len(items) - 1)
        k = rng.choice([2, 4, 0.5])
        inner = [[c / k, at] for c, at in items[:cut]]
        # split the first atom over two places as well
        c0, at0 = items[cut]
        if len(inner) >= 2 and rng.random() < 0.5:
            # a group inside a group, both with multipliers other than 1: k * (c_1 a_1 + m * (rest / m))
            m = rng.choice([3, 0.5, 2])
            inner = [inner[0], [m, [[c / m, at] for c, at in inner[1:]]]]
        return [[k, inner], [c0 * 0.25, at0]] + items[cut + 1:] + [[c0 * 0.75, at0]]
    c0, at0 = items[0]
    return [[2, [[c0 / 4.0, at0]]], [c0 / 2.0, at0]]


def tasks(ctx, quick):
    rng = random.Random(ctx.seed + 4)
    gen = neutgen.Compounds(rng)
    items = []

    def add(t):
        t["id"] = "t%d" % len(items)
        items.append(t)
    # the very first calculation of each of the 32 fresh interpreters involves natural Lu (whose energy table is mixed
    # from its isotopes) before any other energy-dependent atom has been touched
    for i in range(32):
        add({"kind": "scat", "compound": ["dict", [[71, 0, 0, 1], [8, 0, 0, rng.choice([1, 3])]]], "density": 9.0,
             "wavelength": rng.choice([0.3, 0.52, 1.0])})
    n = 500 if quick else 6000
    for i in range(n):
        comp = gen.compound(nmin=2, nmax=5)
        base = {"kind": "rel", "compound": ["dict", comp], "density": rng.choice([0.5, 1.0, 2.2, 7.87, rng.uniform(0.05, 20)]),
                "wavelength": rng.choice(WAVELENGTHS + [rng.uniform(0.05, 50)])}
        base["how"] = ["density", "density", "natural", "carried-natural"][(i // 6) % 4]
        if base["how"] == "carried-natural":
            base["carried"] = rng.choice([1.0, 3.3, 11.0])
        m = i % 6
        if m == 0 and (i // 6) % 4 == 1:
            base["how"] = "string-at"
            base["carried"] = rng.choice([1.0, 3.3, 11.0])
        if m == 0:
            add(dict(base, rel="density", k=rng.choice([0.5, 2.0, 3.7, 10.0, 1e-3, 1e-9, 1e-13, 1e4, rng.uniform(0.1, 9)])))
        elif m == 1:
            c = rng.choice([2, 3, 0.5, 10, 1e-3, 7.25, 1e-9, 1e-12, 1e6])
            add(dict(base, rel="cell", variant=["dict", [[z, a, q, x * c] for z, a, q, x in comp]]))
        elif m == 2:
            add(dict(base, rel="regroup", variant=["seq", regroup(rng, comp)]))
        elif m == 3:
            sh = list(comp)
            rng.shuffle(sh)
            add(dict(base, rel="permute", variant=["seq", [[c, [z, a, q]] for z, a, q, c in sh]]))
        elif m == 4:
            add(dict(base, rel="energy", both=(i % 12 == 4)))
        else:
            if i % 12 == 5:
                ws = sorted(rng.sample([1, 2, 3, 4, 5, 6, 8, 12, 20], rng.randint(1, 5)))     # an integer-typed vector
            else:
                ws = sorted(rng.sample(WAVELENGTHS, rng.randint(1, 6)))
            add(dict(base, rel="vector", vector=ws, index=rng.randrange(len(ws)), reuse_buffer=(i % 4 == 1)))
    # a wavelength buffer the caller fills again between two calls (one array object, new contents): results depend on the
    # wavelengths, not on which array they arrive in; over every atom whose scattering length depends on the energy
    for j, (z, a) in enumerate([(62, 0), (63, 0), (64, 0), (66, 164), (68, 0), (70, 0), (71, 0), (62, 149), (63, 151), (64, 155),
                                (64, 157), (68, 167), (70, 168), (70, 174), (71, 176), (71, 175)]):
        ws = sorted(rng.sample([0.2, 0.3, 0.45, 0.6, 0.8, 1.0, 1.3, 1.798, 2.5], rng.randint(2, 5)))
        add({"kind": "rel", "compound": ["dict", [[z, a, 0, 2], [8, 0, 0, 3]]], "density": 7.4, "wavelength": 1.0, "how": "density",
             "rel": "vector", "vector": ws, "index": rng.randrange(len(ws)), "reuse_buffer": True})
    # k * Formula keeps the material; '+' and blank between groups spell the same compound
    eb = __import__("ptv.rawtables", fromlist=["x"]).element_base()
    for i in range(60 if quick else 600):
        comp = gen.compound(nmin=2, nmax=4)
        base = {"kind": "rel", "compound": ["dict", comp], "density": rng.choice([0.5, 1.0, 2.2, 7.87]),
                "wavelength": rng.choice(WAVELENGTHS)}
        if i % 2 == 0:
            add(dict(base, rel="cellmul", k=rng.choice([2, 3, 0.5, 10, 1e-3, 7.25])))
        elif not any(x[0] == 0 for x in comp):
            def txt(x):
                z, a, q, c = x
                s_ = eb[z][1] + ("[%d]" % a if a else "") + (("{%s%s}" % (abs(q) if abs(q) > 1 else "", "+" if q > 0 else "-")) if q else "")
                return s_ + ("%g" % c if c != 1 else "")
            g1, g2 = "".join(txt(x) for x in comp[:1]), "".join(txt(x) for x in comp[1:])
            k = rng.choice([2, 3, 5])
            add(dict(base, rel="respell", texts=["%d%s %s" % (k, g1, g2), "%d%s+%s" % (k, g1, g2)]))
    grid = [10 ** (k / 4.0) for k in range(-8, 21)]
    for E in grid + [rng.uniform(0.03, 30000) for _ in range(40)]:
        add({"kind": "conv", "E": E, "lam": rng.choice([0.05, 50.0, rng.uniform(0.05, 50)]), "v": rng.choice([2200.0, 100.0, rng.uniform(50, 80000)])})
    for E, lam, v in [(1, 1, 2200), (25, 2, 100), (100, 5, 4000), (3, 12, 700), (1000, 6, 2200), (2, 4, 50)]:
        add({"kind": "conv", "E": E, "lam": lam, "v": v})           # whole numbers (passed as ints and integer arrays too)
    add({"kind": "anchor"})
    # non-negativity on absorbers / negative scattering lengths / clipped incoherent terms
    special = [[[1, 0, 0, 2], [8, 0, 0, 1]], [[22, 0, 0, 1]], [[25, 0, 0, 1], [28, 62, 0, 1]], [[3, 6, 0, 1]], [[5, 10, 0, 4], [6, 0, 0, 1]],
               [[64, 0, 0, 1]], [[48, 113, 0, 1]], [[23, 0, 0, 1]], [[1, 1, 0, 1], [1, 2, 0, 1]], [[62, 149, 0, 1], [8, 0, 0, 2]],
               [[2, 3, 0, 1]], [[14, 0, 0, 1]], [[28, 58, 0, 1], [28, 62, 0, 1]]]
    for comp in special:
        for lam in [0.05, 0.5, 1.798, 10.0, 50.0]:
            add({"kind": "scat", "compound": ["dict", comp], "density": rng.choice([0.1, 1.0, 8.9]), "wavelength": lam})
    return items


def run(ctx):
    quick = ctx.tier == "quick"
    run_items(ctx, tasks(ctx, quick), "neutron-rel")
    ctx.cov["rule"] = ("related calls recorded as one event: density x k, all counts x c, regrouped / permuted rewriting (nested groups, split "
                       "repeated atoms), energy= vs wavelength=, vector vs scalar (with output shapes); unit conversions on a log grid and "
                       "random points (E lambda^2 and v lambda against the raw constants; round trip; the 1.798 A / 2200 m/s / 25.3 meV anchor); "
                       "non-negativity on absorbers and negative scattering lengths; distinct = events")


def replay(ctx, path):
    import json
    with open(path) as f:
        data = json.load(f)
    run_items(ctx, [v["task"] for v in data["violations"] if v.get("task")], "neutron-rel")
    return ctx.finish()
