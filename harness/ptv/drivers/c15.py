"""C15: decay_time returns the time at which total activity reaches the target."""
import random
from .c14 import run_items, conditions

FORMS = ["Co", "Co30Fe70", "SiO2", "Au", "NaCl", "Gd2O3", "Eu", "Dy", "Co[59]", "AgCl", "In", "Mn0.5Ni0.5", "LiF", "Al2O3", "Cu", "W", "Ta",
         "Na", "Mn", "V", "Ir", "Sc2O3", "KBr", "CsI", "La", "Hf", "Re", "Lu2O3"]
TWO_STEP = ["Lu2O3", "Ta", "Tb", "Tm", "Co", "Sc2O3", "Ir", "Lu", "W", "Re"]
RESTLISTS = [[0], [0, 1, 24, 360], [1], [24, 1], [5, 0.5, 100], [2, 0.5], [360, 0], [0.25]]
FRACS = [1e-9, 1e-6, 1e-3, 0.01, 0.1, 0.5, 0.9, 0.999, 0.9995, 0.99999, 1.0, 1.00001, 1.001, 1.5, 2.0, 10.0]


def tasks(ctx, quick):
    rng = random.Random(ctx.seed + 15)
    items = []
    n = 40 if quick else 240
    for i in range(n):
        c = conditions(rng)
        c["fluence"] = rng.choice([1e5, 1e8, 1e11, 1e13])
        c["rests"] = [0]
        lists = [RESTLISTS[0]] + rng.sample(RESTLISTS[1:], 3 if quick else 7)
        items.append({"id": "t%d" % i, "kind": "decay", "formula": rng.choice(FORMS), "cond": c, "restlists": lists,
                      "targets": rng.sample(FRACS, 5 if quick else len(FRACS))})
        if i % 4 == 1:
            items[-1]["reuse"] = rng.choice([1e-3, 0.01, 100.0])
        if i % 4 == 3:
            items[-1]["abundance"] = "IAEA1987"
    # two-step ('2n') products that matter at the answer: strong flux, long exposure
    for f in TWO_STEP:
        for fl, ex in ([(1e13, 1e3)] if quick else [(1e13, 1e3), (1e12, 1e4), (1e13, 100.0), (1e11, 1e4)]):
            c = conditions(rng)
            c.update(fluence=fl, exposure=ex, rests=[0], cd=0.0, fast_ratio=0.0)
            items.append({"id": "t%d" % len(items), "kind": "decay", "formula": f, "cond": c, "restlists": [[0], [1], [0, 24, 360]],
                          "targets": [1e-3, 0.01, 0.1, 0.5, 0.9]})
    # one daughter reached from two targets whose rows give slightly different half-lives (Al-28 from Al and Si, ...)
    for f in (["Al2SiO5", "KAlSi3O8", "Rb2SrCl4", "CoNi"] if quick else ["Al2SiO5", "KAlSi3O8", "Rb2SrCl4", "CoNi", "SiAl", "NiCo", "SrRb"]):
        for fr in (10.0, 50.0):
            c = conditions(rng)
            c.update(fluence=rng.choice([1e8, 1e11]), exposure=rng.choice([0.1, 1.0]), rests=[0], cd=0.0, fast_ratio=fr)
            items.append({"id": "t%d" % len(items), "kind": "decay", "formula": f, "cond": c, "restlists": [[0], [0.01]],
                          "targets": [0.5, 0.1, 0.01, 1e-3]})
    # a product that is tiny but still an ordinary double at the first rest time (A0 e^-700) is not lost
    for f, rests in (("C2F4", [3.1, 24]), ("NaCl", [0.00563, 1]), ("Al2O3", [37.9, 100]), ("C2F4", [24, 3.08])):
        c = conditions(rng)
        c.update(fluence=1e8, exposure=1.0, rests=[0], cd=0.0, fast_ratio=0.0, mass=10.0)
        items.append({"id": "t%d" % len(items), "kind": "decay", "formula": f, "cond": c, "restlists": [[0], rests],
                      "targets": [0.5, 0.1, 0.9]})
    # weakly activated samples: the targets are tiny numbers of uCi (1e-9 of 1e-5 uCi), far below anything the solver's
    # absolute tolerances know about; the answer is for the target that was asked for, or RuntimeError
    for f, m in (("Al", 1e-3), ("Na", 1e-3), ("Mn", 1e-2), ("V", 1e-3), ("Al", 1e-6), ("NaCl", 1e-4)):
        c = conditions(rng)
        c.update(fluence=1e5, exposure=1.0, rests=[0], cd=0.0, fast_ratio=0.0, mass=m)
        items.append({"id": "t%d" % len(items), "kind": "decay", "formula": f, "cond": c, "restlists": [[0], [0, 1, 24]],
                      "targets": [1e-3, 1e-6, 1e-7, 1e-8, 1e-9]})
    # half-lives corrected by the owner of the table before the calculation
    for f in ("Mn", "Co", "Al2O3", "NaCl"):
        c = conditions(rng)
        c.update(fluence=1e8, exposure=1.0, rests=[0])
        items.append({"id": "t%d" % len(items), "kind": "decay", "formula": f, "cond": c, "restlists": [[0], [1]],
                      "targets": [0.5, 0.1, 0.01], "edit_thalf": rng.choice([0.9, 1.05, 0.999])})
    return items


def run(ctx):
    quick = ctx.tier == "quick"
    run_items(ctx, tasks(ctx, quick), "decay")
    ctx.cov["rule"] = ("seeded samples (formula, mass, flux, Cd and fast ratios, exposure) x rest-time lists (with / without 0, unsorted, length 1) x "
                       "targets from 1e-9 to 10 times the activity at removal (incl. 0.999, 1, 1.001, 1.5, 2); the activities at removal come from "
                       "a separate calculation with rest time 0; TLC recomputes sum A_i 2^(-t/T_i) at the returned time with 60-digit exponentials "
                       "and checks the 0.1 % post-condition, the zero / RuntimeError classification and the independence of the rest-time list")


def replay(ctx, path):
    import json
    with open(path) as f:
        data = json.load(f)
    seen, items = set(), []
    for v in data["violations"]:
        t = v.get("task")
        if t and t["id"] not in seen:
            seen.add(t["id"])
            items.append(t)
    run_items(ctx, items, "decay")
    return ctx.finish()
