"""C02: composition arithmetic is additive; operands are not disturbed."""
import random
from .. import forkrun, tlc, tracecheck, rawtables, dec, atoms as atomsmod

CFG = """SPECIFICATION FSpec
CONSTANTS
  Vars = %(vars)s
  NAtoms = 7
  Bases = %(bases)s
  Mults = %(mults)s
  MaxObjs = %(maxobjs)d
  MaxDepth = %(depth)d
  Tabs = %(tabs)s
INVARIANT Emit
INVARIANT NonNegative
PROPERTY OperandsUnchanged
PROPERTY ObjectsNeverVanish
PROPERTY ChTabKeepsComposition
"""
TRACE_CFG = """CONSTANTS
  Vars = {"x", "y", "z"}
  NAtoms = 7
  Bases = {"CH4", "H2O", "Fe3O4", "D2O18", "hydrate", "zero", "empty", "half", "H"}
  Mults = {"0", "0.5", "1", "2", "3", "1.5", "0.25"}
  MaxObjs = 99
  MaxDepth = 99
  Tabs = {0, 1}
"""


def sset(xs):
    return "{" + ", ".join('"%s"' % x for x in xs) + "}"


def gen(ctx, name, vars_, bases, mults, depth, simulate=None, tabs="{0}"):
    cfg = CFG % dict(vars=sset(vars_), bases=sset(bases), mults=sset(mults), maxobjs=depth + 1, depth=depth, tabs=tabs)
    if simulate:
        res = tlc.run("MC_Formula", cfg, workers=16, simulate="num=%d" % simulate, depth=depth + 2, seed=ctx.seed + 3, timeout=900)
    else:
        res = tlc.run("MC_Formula", cfg, workers=16, timeout=900)
    if res.rc != 0:
        raise tlc.TLCError("MC_Formula %s: %s" % (name, tlc.brief(res.out)))
    hs = {}
    for r in res.printed():
        hs[str(r["hist"])] = r["hist"]
    if simulate:
        res.distinct = len(hs)
    ctx.tlc("MC_Formula " + name, res)
    return list(hs.values())


def pick_twins(uni, rng):
    """7 atoms in which atoms of one element differ only in isotope: X[a1]{q} / X[a2]{q} (or X{q}) in the places of
    Fe{2+} / Fe{3+}, an isotope of the third element in the place of O[18]."""
    eb, isos = uni["eb"], uni["isos"]
    while True:
        els = rng.sample([a for a in uni["el"] if a.z != 1], 3)
        if not isos.get(els[2].z):
            continue
        zs = [z for z in eb if eb[z][2] and len(isos.get(z, [])) >= 2 and z not in [e.z for e in els] and z != 1]
        z = rng.choice(zs)
        q = rng.choice(list(eb[z][2]))
        a1, a2 = rng.sample(isos[z], 2)
        if rng.random() < 0.4:
            a2 = 0
        ion1, ion2 = atomsmod.Atom(eb[z][1], z, a1, q), atomsmod.Atom(eb[z][1], z, a2, q)
        iso = atomsmod.Atom(els[2].sym, els[2].z, rng.choice(isos[els[2].z]))
        al = rng.choice(uni["alias"])
        ats = els + [ion1, ion2, iso, al]
        return [[a.z, a.a, a.q, a.render()] for a in ats]


def pick_atoms(uni, rng):
    """7 atoms of the right kinds: 3 distinct elements, two ions of one element, an isotope, D or T."""
    if rng.random() < 0.35:
        return pick_twins(uni, rng)
    eb, isos = uni["eb"], uni["isos"]
    els = rng.sample([a for a in uni["el"]], 3)
    z = rng.choice([z for z in eb if len(eb[z][2]) >= 2 and z not in [e.z for e in els]])
    q1, q2 = rng.sample(list(eb[z][2]), 2)
    ion1, ion2 = atomsmod.Atom(eb[z][1], z, 0, q1), atomsmod.Atom(eb[z][1], z, 0, q2)
    kind = rng.choice(["iso", "isoion"])
    iso = rng.choice(uni[kind])
    while iso.z in [e.z for e in els] + [z]:
        iso = rng.choice(uni[kind])
    al = rng.choice(uni["alias"])
    while al.key() == iso.key():          # H[2]{+} and D{+} are one atom: the seven must be distinct
        al = rng.choice(uni["alias"])
    while 1 in [e.z for e in els]:
        els = rng.sample([a for a in uni["el"]], 3)
    ats = els + [ion1, ion2, iso, al]
    return [[a.z, a.a, a.q, a.render()] for a in ats]


def run(ctx):
    quick = ctx.tier == "quick"
    rng = random.Random(ctx.seed)
    uni = atomsmod.universe(rng, 400 if quick else 3000)
    hs = gen(ctx, "exhaustive depth 3 (2 variables)", ["x", "y"], ["CH4", "H2O", "H"], ["0.5", "3"], 3)
    rng.shuffle(hs)
    if quick:
        hs = hs[:3000]
    deep = gen(ctx, "simulate depth 7 (3 variables, all bases)", ["x", "y", "z"],
               ["CH4", "H2O", "Fe3O4", "D2O18", "hydrate", "zero", "empty", "half", "H"], ["0", "0.5", "1", "2", "3", "1.5", "0.25"], 7,
               simulate=(5 if quick else 100), tabs="{0, 1}")
    # two tables, change_table: all maximal histories of depth 3 over one base
    emp = gen(ctx, "exhaustive depth 3 (2 variables, empty formulas accumulated onto)", ["x", "y"], ["empty", "H"], ["3"], 3)
    rng.shuffle(emp)
    hs += emp[:(1500 if quick else len(emp))]
    two = gen(ctx, "exhaustive depth 3 (2 variables, 2 tables, change_table)", ["x", "y"], ["H2O"], ["3"], 3, tabs="{0, 1}")
    rng.shuffle(two)
    hs += two[:(1500 if quick else len(two))]
    rng.shuffle(deep)
    hs += deep[:(1500 if quick else 30000)]
    fixed = [[6, 0, 0, "C"], [1, 0, 0, "H"], [8, 0, 0, "O"], [26, 0, 2, "Fe{2+}"], [26, 0, 3, "Fe{3+}"], [8, 18, 0, "O[18]"], [1, 2, 0, "D"]]
    items = []
    for i, h in enumerate(hs):
        ats = fixed if i % 3 == 0 else pick_atoms(uni, rng)
        items.append({"id": i, "ops": h, "vars": ["x", "y", "z"], "atoms": ats, "T": "T1" if i % 9 == 4 else None, "edit": i % 18 == 4})
    nb = 32
    batches = [items[i::nb] for i in range(nb)]
    outs = forkrun.map_fresh("ptv.formexec", "observe_pool", [{"items": b} for b in batches])
    events, byid = [], {}
    for b, (st, res) in zip(batches, outs):
        if st != "ok":
            ctx.error("pool batch failed: " + res[-600:])
            return
        for it, ev in zip(b, res):
            byid[it["id"]] = it
            events.append(ev)
            ctx.distinct(str(it["ops"]))
    consts = rawtables.module_constants("constants")
    header = {"vars": ["x", "y", "z"], "avogadro": dec.to_dec(consts["avogadro_number"]),
              "electron_mass": dec.to_dec(consts["electron_mass"])}
    rejected = tracecheck.validate(ctx, "Trace_Formula", header, events, cfg_extra=TRACE_CFG, name="Trace_Formula")
    ctx.count("histories", len(events))
    ctx.count("operations", sum(len(e["ops"]) for e in events))
    for i, x in sorted(rejected.items()):
        it = byid[i]
        ctx.violation({"kind": "pool", "clause": x["clause"], "step": x["step"], "ops": it["ops"], "atoms": [a[3] for a in it["atoms"]],
                       "table": it["T"]})
    for e in events[:2] + events[-2:]:
        ctx.sample({"ops": e["ops"], "atoms": [a[3] for a in byid[e["id"]]["atoms"]]})
    ctx.cov["rule"] = ("histories of pool operations (new via str/atom/dict/seq, copy, +, n*, +=, .hill, aliasing) generated by TLC from "
                       "PTFormula (all maximal histories of depth 3 over 2 variables; -simulate to depth 7 over 3 variables), executed on "
                       "the real code with atoms relabelled over the table; after every operation the composition of every variable, the "
                       "identity classes and mass/charge/fractions are validated by TLC; distinct = distinct op sequences")


def replay(ctx, path):
    import json
    with open(path) as f:
        data = json.load(f)
    for v in data["violations"][:20]:
        print(v)
    return 0
