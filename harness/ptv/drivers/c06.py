"""C06: mass, abundance and density of every nuclide are those of the embedded tables."""
import random
from .. import forkrun, tracecheck, rawtables, dec


def table_events():
    """The raw rows of the four tables as reader events, in table order (fields lexed, not interpreted)."""
    evs = []
    for i, line in enumerate(rawtables.const("mass", "isotope_mass").split("\n")):
        key, m, p, avg = line.split(",")
        z, sym, a = key.split("-")
        evs.append({"ev": "imrow", "id": "imrow:%d" % i, "z": int(z), "sym": sym, "a": int(a),
                    "m": rawtables.lex_unc(m), "avg": rawtables.lex_unc(avg)})
    c = rawtables.module_constants("constants")
    nm, nu = c["neutron_mass"], c["neutron_mass_unc"]
    evs.append({"ev": "neutron", "id": "neutron", "m": {"k": "unc", "v": dec.to_dec(nm), "ud": dec.to_dec(nu), "vdec": 0,
                                                        "udot": True, "vdot": True}})
    for i, line in enumerate(rawtables.const("mass", "element_mass").split("\n")):
        f = line.split()
        evs.append({"ev": "emrow", "id": "emrow:%d" % i, "z": int(f[0]), "value": rawtables.lex_unc(f[3])})
    nlisted = 0
    for i, line in enumerate(rawtables.const("mass", "isotope_abundance").split("\n")):
        if line[0] not in " \t":
            evs.append({"ev": "abhdr", "id": "abhdr:%d" % i, "z": int(line.split()[0])})
            nlisted += 1
        else:
            f = line.split()
            evs.append({"ev": "abrow", "id": "abrow:%d" % i, "a": int(f[0]), "value": rawtables.lex_unc(f[1])})
    evs.append({"ev": "abend", "id": "abend"})
    eb = rawtables.element_base()
    symz = dict((v[1], z) for z, v in eb.items())
    for sym, v in rawtables.const("density", "element_densities").items():
        val = v[0] if isinstance(v, tuple) else v
        evs.append({"ev": "dens", "id": "dens:" + sym, "z": symz[sym],
                    "value": {"k": "none"} if val is None else {"k": "num", "v": dec.to_dec(val)}})
    evs.append({"ev": "datacheck", "id": "datacheck", "nlisted": nlisted})
    return evs


def run(ctx):
    quick = ctx.tier == "quick"
    eb = rawtables.element_base()
    rows = table_events()
    allz = sorted(eb)
    nb = 16
    batches = [sorted(set(allz[i::nb]) | {1}) for i in range(nb)]     # hydrogen (with D and T) is served under every variant
    outs = forkrun.map_fresh("ptv.massexec", "serve", [{"zs": b, "private": True, "variant": [0, 1, 2, 3, 4, 5, 6, 7, 8, 9, 10, 11, 16, 17, 18, 20][i % 16]} for i, b in enumerate(batches)])
    c = rawtables.module_constants("constants")
    header = {"avogadro": dec.to_dec(c["avogadro_number"]), "symof": dict((str(z), v[1]) for z, v in eb.items())}
    total = 0
    rejected_all = {}
    byid = {}
    # one TLC run per batch: all table rows (the reader state machine) followed by that batch's serve events
    events_per = []
    for bi, (b, (st, evs)) in enumerate(zip(batches, outs)):
        if st != "ok":
            ctx.error("serve child failed: " + evs[-600:])
            return
        for j, e in enumerate(evs):
            e["id"] = "serve:%s:%d:%d%s" % (e["T"], e["z"], e["a"], (":" + e["alias"]) if "alias" in e else "")
            byid[e["id"]] = e
            ctx.distinct(e["id"])
        total += len(evs)
        events_per.append(evs)
    # shards must each start with the full table, so validate shard by shard
    import itertools
    from concurrent.futures import ThreadPoolExecutor

    def one(evs):
        sub = type(ctx).__new__(type(ctx))
        return tracecheck.validate(ctx, "Trace_Mass", header, rows + evs, nshards=1, name="Trace_Mass")
    with ThreadPoolExecutor(max_workers=16) as ex:
        for rej in ex.map(one, events_per):
            rejected_all.update(rej)
    ctx.count("table rows read by the reference readers", len(rows))
    ctx.count("atoms served (public + private)", total)
    for i, x in sorted(rejected_all.items()):
        e = byid.get(i, {})
        ctx.violation({"kind": "mass", "clause": x["clause"], "id": i, "z": e.get("z"), "a": e.get("a"), "table": e.get("T"),
                       "served": dict((k, (dec.to_decimal(v["v"]).__float__() if isinstance(v, dict) and v.get("k") == "num" else v))
                                      for k, v in e.items() if k in ("mass", "abundance", "density")), "exc": e.get("exc")})
    for e in events_per[0][:3]:
        ctx.sample(dict((k, v) for k, v in e.items() if k in ("T", "z", "a", "id")))
    ctx.cov["rule"] = ("the reference readers (Trace_Mass) consume every raw row of isotope_mass, element_mass, isotope_abundance and "
                       "element_densities; every element and isotope of the public and of a fresh private table is then compared "
                       "(mass, uncertainty, abundance, density, number density, interatomic distance); distinct = atoms served")
    ctx.cov["exhaustive"] = True


def replay(ctx, path):
    run(ctx)
    return ctx.finish()
