"""C16: D2O contrast matching agrees with direct substitution of labile hydrogen."""
import random
from .. import neutgen
from .c03 import run_items


def tasks(ctx, quick):
    rng = random.Random(ctx.seed + 16)
    gen = neutgen.Compounds(rng)
    items = [{"id": "fasta", "kind": "fasta_tables", "seed": ctx.seed}]
    n = 150 if quick else 2500
    organics = [[6, 0, 0], [7, 0, 0], [8, 0, 0], [15, 0, 0], [16, 0, 0], [11, 0, 0], [1, 0, 0], [1, 2, 0], [8, 18, 0], [6, 13, 0], [17, 0, 0]]
    for i in range(n):
        comp = []
        seen = set()
        with_molecule = i % 3 != 0
        for _ in range(rng.randint(1, 5)):
            a = rng.choice(organics + ([] if with_molecule else [[1, 3, 0]])) if rng.random() < 0.7 else gen.next_atom()
            # H[1] is added separately below; tritium appears only where fasta.Molecule is not involved, because Molecule
            # (deprecated behaviour, documented with a warning) reads T as labile hydrogen, which D2O_match does not
            if tuple(a) in seen or tuple(a[:2]) == (1, 1) or (with_molecule and tuple(a[:2]) == (1, 3)):
                continue
            seen.add(tuple(a))
            comp.append(a + [rng.choice([1, 2, 3, 5, 8, 12, 0.5, 22])])
        nl = rng.choice([0, 0, 1, 2, 3, 7, 0.5])
        if nl:
            comp.append([1, 1, 0, nl])
        t = {"id": "t%d" % i, "kind": "d2o", "compound": ["dict", comp], "d": rng.choice([0.0, 0.25, 0.5, 1.0, rng.random()]),
             "v": rng.choice([0.0, 0.25, 0.5, 1.0, rng.random()])}
        if i % 4 == 2:
            t["kwdens"] = True
        if not with_molecule and i % 2 == 1 and not any(x[0] == 0 for x in comp):
            t["T"] = "T2"             # a table whose owner changed masses; the functions read the text with table=T2
            t["text"] = True
        if i % 5 == 1:
            t["vector"] = rng.choice([3, 3, 2, 4])            # D2O fractions given as one array (a contrast series)
        t["natural_density" if i % 2 else "density"] = rng.choice([1.0, 1.35, 0.9, 2.2, rng.uniform(0.5, 5)])
        if i % 6 == 0:
            t["wavelength"] = rng.choice([0.5, 1.798, 4.75, 12.0])
        elif i % 6 == 3:          # the beam given as energy=; energy-dependent scatterers make it matter
            t["energy"] = rng.choice([3.63, 25.3, 81.8, 327.0, 1000.0, rng.uniform(0.5, 2000)])
            if rng.random() < 0.6:
                z, a = rng.choice(gen.tablelike)
                if (z, a, 0) not in seen:
                    comp.insert(0, [z, a, 0, rng.choice([1, 2])])
        else:
            t["molecule"] = True
        items.append(t)
    return items


def run(ctx):
    quick = ctx.tier == "quick"
    run_items(ctx, tasks(ctx, quick), "d2o")
    ctx.cov["rule"] = ("compounds with 0..n labile hydrogens H[1] (with D, O-18, C-13 and arbitrary other atoms present), density or natural density, "
                       "D2O fraction and volume fraction in [0,1], several wavelengths, plus every molecule of the fasta tables; one event holds the "
                       "corner and sample values of D2O_sld, D2O_match and the fasta.Molecule attributes with the per-atom data served; TLC "
                       "recomputes the direct substitution at unchanged cell volume, the solvent, the mixing laws and the match point")


def replay(ctx, path):
    import json
    with open(path) as f:
        data = json.load(f)
    run_items(ctx, [v["task"] for v in data["violations"] if v.get("task")], "d2o")
    return ctx.finish()
