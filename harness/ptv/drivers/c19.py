"""C19: Hill form is a canonical, composition-preserving normal form."""
import random
from .. import forkrun, tracecheck, atoms as atomsmod


def variants(rng, atoms_counts, k):
    """The same bag written in k different orders / groupings / constructors."""
    out = []
    base = [[c, [a.z, a.a, a.q]] for a, c in atoms_counts]
    for i in range(k):
        items = list(base)
        rng.shuffle(items)
        form = i % 5
        if form == 0:
            out.append(["seq", items])
        elif form == 1:
            out.append(["dict", [[x[1][0], x[1][1], x[1][2], x[0]] for x in items]])
        elif form == 2 and len(items) >= 2:
            cut = rng.randint(1, len(items) - 1)
            out.append(["add", ["seq", items[:cut]], ["seq", items[cut:]]])
        elif form == 3:
            # split one atom's count over two places: repeated atoms add
            j = rng.randrange(len(items))
            c = items[j][0]
            rest = items[:j] + items[j + 1:]
            out.append(["seq", [[c * 0.25, items[j][1]]] + rest + [[c * 0.75, items[j][1]]]])
        else:
            # a multiple of an (inspected) operand plus the rest: 2 * (half of everything)
            out.append(["mul", 2, ["seq", [[x[0] / 2.0, x[1]] for x in items]]])
    # one of the variants has been saved and restored (pickle / deepcopy): it is still the same formula
    j = rng.randrange(len(out))
    out[j] = [rng.choice(["deepcopy", "pickle"]), out[j]]
    return out


def run(ctx):
    quick = ctx.tier == "quick"
    rng = random.Random(ctx.seed)
    uni = atomsmod.universe(rng, 400 if quick else 3000)
    rot = atomsmod.Rotor(uni, rng)
    eb, isos = uni["eb"], uni["isos"]
    items = []
    n = 1200 if quick else 12000
    carbon = atomsmod.Atom("C", 6)
    hydrogen = atomsmod.Atom("H", 1)
    for i in range(n):
        nat = rng.choice([1, 2, 3, 4, 5, 6])
        ats = rot.distinct(nat)
        mode = i % 6
        if mode == 0:      # several charge states of one element (+ neutral)
            z = rng.choice([z for z in eb if len(eb[z][2]) >= 2])
            sym = eb[z][1]
            qs = rng.sample(list(eb[z][2]), min(len(eb[z][2]), rng.randint(2, 3)))
            ats = [atomsmod.Atom(sym, z, 0, q) for q in qs] + [atomsmod.Atom(sym, z)] + ats[:2]
        elif mode == 1:    # several isotopes of one element, with and without charge
            z = rng.choice([z for z in isos if len(isos[z]) >= 3 and z > 0])
            sym = eb[z][1]
            As = rng.sample(isos[z], 3)
            ats = [atomsmod.Atom(sym, z, A) for A in As] + [atomsmod.Atom(sym, z)] + ats[:2]
            if eb[z][2]:
                ats.append(atomsmod.Atom(sym, z, As[0], eb[z][2][0]))
        elif mode == 2:    # organic: C, H, D, T and friends
            ats = [carbon, hydrogen, atomsmod.Atom("D", 1, 2, 0, True), atomsmod.Atom("T", 1, 3, 0, True),
                   atomsmod.Atom("H", 1, 1), atomsmod.Atom("C", 6, 13)][:rng.randint(2, 6)] + ats[:3]
        elif mode == 3:
            ats = [carbon] + ats
        elif mode == 4:
            ats = [hydrogen] + ats
        seen = set()
        ac = []
        for a in ats:
            if a.key() in seen:
                continue
            seen.add(a.key())
            ac.append((a, rng.choice([1, 2, 3, 4, 0.5, 1.5, 12, 22, 0.25])))
        items.append({"id": i, "variants": variants(rng, ac, 5), "T": "T1" if i % 11 == 0 else None, "touch": i % 2 == 1})
    nb = 32
    batches = [items[i::nb] for i in range(nb)]
    outs = forkrun.map_fresh("ptv.formexec", "observe_hill", [{"items": b} for b in batches])
    events, byid = [], {}
    for b, (st, res) in zip(batches, outs):
        if st != "ok":
            ctx.error("hill batch failed: " + res[-600:])
            return
        for it, ev in zip(b, res):
            byid[it["id"]] = (it, ev)
            events.append(ev)
            ctx.distinct(ev.get("hillstr", str(it["id"])))
    rejected = tracecheck.validate(ctx, "Trace_Hill", {"hdr": 1}, events, name="Trace_Hill")
    ctx.count("compositions", len(events))
    ctx.count("variants", 5 * len(events))
    for i, x in sorted(rejected.items()):
        it, ev = byid[i]
        sig = classify(ev)
        ctx.violation({"kind": "hill", "clause": x["clause"], "hillstr": ev.get("hillstr"), "exc": ev.get("exc"),
                       "variants": it["variants"][:2], "sig": sig})
    for e in events[:3]:
        ctx.sample({"hill": e.get("hillstr"), "variants": byid[e["id"]][0]["variants"][:2]})
    ctx.cov["rule"] = ("each composition (elements, isotopes, D/T, several charge states of one element, isotope ions; C/H present or "
                       "not) is built 5 ways (shuffled sequence, dict, sum of parts, split repeated atom, nested group); TLC checks "
                       "the laws on the recorded Hill forms; distinct = distinct Hill strings")


def classify(ev):
    return "n/a"


def replay(ctx, path):
    import json
    with open(path) as f:
        data = json.load(f)
    items = [{"id": i, "variants": v["variants"]} for i, v in enumerate(data["violations"]) if "variants" in v]
    st, res = forkrun.call_fresh("ptv.formexec", "observe_hill", {"items": items})
    for r in res:
        print(r.get("hillstr"), r.get("eq"), r.get("idem"), r.get("parsed_eq_hill"), r.get("exc"))
    return 0
