"""C19: Hill form is a canonical, composition-preserving normal form."""
import random
from .. import forkrun, tracecheck, atoms as atomsmod


def variants(rng, atoms_counts, k):
    """The same bag written in k different orders / groupings / constructors."""
    out = []
    base = [[c, [a.z, a.a, a.q]] for a, c in atoms_counts]
    for i in range(k):
        items = list(base)
        rng.shuffle(items)
        form = i % 5
        if form == 0:
            out.append(["seq", items])
        elif form == 1:
            out.append(["dict", [[x[1][0], x[1][1], x[1][2], x[0]] for x in items]])
        elif form == 2 and len(items) >= 2:
            cut = rng.randint(1, len(items) - 1)
            out.append(["add", ["seq", items[:cut]], ["seq", items[cut:]]])
        elif form == 3:
            # split one atom's count over two places: repeated atoms add
            j = rng.randrange(len(items))
            c = items[j][0]
            rest = items[:j] + items[j + 1:]
            out.append(["seq", [[c * 0.25, items[j][1]]] + rest + [[c * 0.75, items[j][1]]]])
        else:
            # a multiple of an (inspected) operand plus the rest: 2 * (half of everything)
            out.append(["mul", 2, ["seq", [[x[0] / 2.0, x[1]] for x in items]]])
    if len(base) >= 2:
        # a group inside a multiplied group ((Ca3(PO4)2)2 against Ca6P4O16): every enclosing multiplier applies
        items = list(base)
        rng.shuffle(items)
        cut = rng.randint(1, len(items) - 1)
        inner = [[x[0] / 8.0, x[1]] for x in items[cut:]]
        out.append(["seq", [[2, [[x[0] / 2.0, x[1]] for x in items[:cut]] + [[4, inner]]]]])
    # one of the variants has been saved and restored (pickle / deepcopy): it is still the same formula
    j = rng.randrange(len(out))
    out[j] = [rng.choice(["deepcopy", "pickle"]), out[j]]
    return out


def run(ctx):
    quick = ctx.tier == "quick"
    rng = random.Random(ctx.seed)
    uni = atomsmod.universe(rng, 400 if quick else 3000)
    rot = atomsmod.Rotor(uni, rng)
    eb, isos = uni["eb"], uni["isos"]
    items = []
    n = 1200 if quick else 12000
    carbon = atomsmod.Atom("C", 6)
    hydrogen = atomsmod.Atom("H", 1)
    for i in range(n):
        nat = rng.choice([1, 2, 3, 4, 5, 6])
        ats = rot.distinct(nat)
        mode = i % 6
        if mode == 0:      # several charge states of one element (+ neutral)
            z = rng.choice([z for z in eb if len(eb[z][2]) >= 2])
            sym = eb[z][1]
            qs = rng.sample(list(eb[z][2]), min(len(eb[z][2]), rng.randint(2, 3)))
            ats = [atomsmod.Atom(sym, z, 0, q) for q in qs] + [atomsmod.Atom(sym, z)] + ats[:2]
        elif mode == 1:    # several isotopes of one element, with and without charge
            z = rng.choice([z for z in isos if len(isos[z]) >= 3 and z > 0])
            sym = eb[z][1]
            As = rng.sample(isos[z], 3)
            ats = [atomsmod.Atom(sym, z, A) for A in As] + [atomsmod.Atom(sym, z)] + ats[:2]
            if eb[z][2]:
                ats.append(atomsmod.Atom(sym, z, As[0], eb[z][2][0]))
        elif mode == 2:    # organic: C, H, D, T and friends
            ats = [carbon, hydrogen, atomsmod.Atom("D", 1, 2, 0, True), atomsmod.Atom("T", 1, 3, 0, True),
                   atomsmod.Atom("H", 1, 1), atomsmod.Atom("C", 6, 13)][:rng.randint(2, 6)] + ats[:3]
        elif mode == 3:
            ats = [carbon] + ats
        elif mode == 4:
            ats = [hydrogen] + ats
        seen = set()
        ac = []
        for a in ats:
            if a.key() in seen:
                continue
            seen.add(a.key())
            ac.append((a, rng.choice([1, 2, 3, 4, 0.5, 1.5, 12, 22, 0.25])))
        it = {"id": i, "variants": variants(rng, ac, 5), "T": "T1" if i % 11 == 0 else None, "touch": i % 2 == 1}
        if i % 10 == 5 and len(ac) >= 2:
            # an atom whose count is zero is still an atom of the formula: the Hill form has the same atom counts
            j = rng.randrange(len(ac))
            ac2 = [(a, (0 if k == j else c)) for k, (a, c) in enumerate(ac)]
            it = {"id": i, "variants": variants(rng, ac2, 5), "T": it["T"], "touch": it["touch"], "noparse": True}
        if i % 10 == 3 and len(ac) >= 2:
            # counts that carry floating-point round-off (100 * 0.07 = 7.000000000000001): the Hill form keeps them as they are
            k = rng.choice([100, 3, 7, 10])
            cs = [rng.choice([7, 29, 3, 57, 0.7, 1.1]) for _ in ac]
            it["variants"] = [["mul", k, ["seq", [[c / float(k), [a.z, a.a, a.q]] for (a, _), c in zip(ac, cs)]]],
                              ["mul", k, ["seq", [[c / float(k), [a.z, a.a, a.q]] for (a, _), c in reversed(list(zip(ac, cs)))]]]]
            it["noparse"] = True          # (printing rounds such counts to six digits: the printed form is another formula)
        if i % 10 == 7 and len(ac) >= 2:
            # the same species from two tables are different atoms: none is lost, each table's part is ordered
            cut = rng.randint(1, len(ac) - 1)
            part = lambda xs: ["seq", [[c, [a.z, a.a, a.q]] for a, c in xs]]
            both = ac[:cut] + ac          # the first atoms also appear in the second table
            sh1, sh2 = list(ac[:cut]), list(ac)
            rng.shuffle(sh1)
            rng.shuffle(sh2)
            # (one variant: the order between the same species of two tables is not specified, only that none is lost)
            it["variants"] = [rng.choice([["add", ["intab", "T1", part(ac[:cut])], ["intab", None, part(ac)]],
                                          ["add", ["intab", None, part(sh2)], ["intab", "T1", part(sh1)]]])]
            it["T"] = None
            it["noparse"] = True
        items.append(it)
    # the neutron (symbol 'n') sorts after every chemical symbol, also next to nitrogen
    neutron = atomsmod.Atom("n", 0)
    for i in range(40 if quick else 400):
        others = rot.distinct(rng.randint(1, 3))
        ats = [neutron, atomsmod.Atom("N", 7)] + [a for a in others if a.z not in (0, 7)]
        if i % 3 == 0:
            ats.append(atomsmod.Atom("N", 7, 15))
        ac = [(a, rng.choice([1, 2, 3, 0.5])) for a in ats]
        vs = [v for v in variants(rng, ac, 5)]
        items.append({"id": n + i, "variants": vs, "T": None, "touch": i % 2 == 1, "noparse": True})
    nb = 32
    batches = [items[i::nb] for i in range(nb)]
    outs = forkrun.map_fresh("ptv.formexec", "observe_hill", [{"items": b} for b in batches])
    events, byid = [], {}
    for b, (st, res) in zip(batches, outs):
        if st != "ok":
            ctx.error("hill batch failed: " + res[-600:])
            return
        for it, ev in zip(b, res):
            byid[it["id"]] = (it, ev)
            events.append(ev)
            ctx.distinct(ev.get("hillstr", str(it["id"])))
    rejected = tracecheck.validate(ctx, "Trace_Hill", {"hdr": 1}, events, name="Trace_Hill")
    ctx.count("compositions", len(events))
    ctx.count("variants", 5 * len(events))
    for i, x in sorted(rejected.items()):
        it, ev = byid[i]
        sig = classify(ev)
        ctx.violation({"kind": "hill", "clause": x["clause"], "hillstr": ev.get("hillstr"), "exc": ev.get("exc"),
                       "variants": it["variants"][:2], "sig": sig})
    for e in events[:3]:
        ctx.sample({"hill": e.get("hillstr"), "variants": byid[e["id"]][0]["variants"][:2]})
    ctx.cov["rule"] = ("each composition (elements, isotopes, D/T, several charge states of one element, isotope ions; C/H present or "
                       "not) is built 5 ways (shuffled sequence, dict, sum of parts, split repeated atom, nested group); TLC checks "
                       "the laws on the recorded Hill forms; distinct = distinct Hill strings")


def classify(ev):
    return "n/a"


def replay(ctx, path):
    import json
    with open(path) as f:
        data = json.load(f)
    items = [{"id": i, "variants": v["variants"]} for i, v in enumerate(data["violations"]) if "variants" in v]
    st, res = forkrun.call_fresh("ptv.formexec", "observe_hill", {"items": items})
    for r in res:
        print(r.get("hillstr"), r.get("eq"), r.get("idem"), r.get("parsed_eq_hill"), r.get("exc"))
    return 0
