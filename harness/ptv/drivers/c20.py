"""C20: ancillary tables are served to exactly the element or ion they belong to."""
import re
from concurrent.futures import ThreadPoolExecutor
from .. import forkrun, tracecheck, rawtables, dec


def codes(s):
    return [ord(c) for c in s]


def crystal_labels():
    """the '#Sym' comment that ends every row of the crystal_structures list in the source (the row's own label)"""
    src = open(rawtables.data_file("crystal_structure.py")).read()
    body = src[src.index("crystal_structures = ["):]
    body = body[:body.index("\n]") if "\n]" in body else len(body)]
    out = []
    for line in body.split("\n")[1:]:
        line = line.strip()
        if not line or line.startswith("#"):
            continue
        out.append(line.rsplit("#", 1)[1].strip() if "#" in line else "")
    return out


def table_events():
    evs = []
    for i, line in enumerate(rawtables.const("covalent_radius", "Cordero").split("\n")):
        f = line.split()
        alt = f[0] == "-"
        evs.append({"ev": "cordero", "id": "cordero:%d" % i, "alt": alt, "z": 0 if alt else int(f[0]), "label": codes(f[1]),
                    "r": dec.to_dec(f[2]), "u": dec.to_dec(f[3]) if len(f) > 3 else dec.to_dec(0)})
    labels = crystal_labels()
    eb_ = rawtables.element_base()
    symz_ = dict((v[1], z) for z, v in eb_.items())
    # rows whose own '#Sym' comment names another element; three in a row = the table is shifted against its labels
    wrong = [z for z, lab in enumerate(labels) if z > 0 and lab in symz_ and symz_[lab] != z]
    shifted = set(z for z in wrong if z + 1 in wrong and z + 2 in wrong)
    shifted |= set(z + 1 for z in shifted) | set(z + 2 for z in shifted)
    for z, v in enumerate(rawtables.const("crystal_structure", "crystal_structures")):
        val = {"k": "none"} if v is None else {"k": "dict", "symmetry": v.get("symmetry"),
                                               "nums": dict((k, dec.to_dec(x)) for k, x in v.items() if k != "symmetry")}
        evs.append({"ev": "cryst", "id": "cryst:%d" % z, "z": z, "value": val, "shifted": z in shifted})
    for i, row in enumerate(rawtables.const("xsf", "spectral_lines_data").split("\n")):
        s, ka, kb = row.split()
        evs.append({"ev": "emis", "id": "emis:%d" % i, "sym": codes(s), "ka": dec.to_dec(ka), "kb": dec.to_dec(kb)})
    data = rawtables.const("magnetic_ff", "CFML_DATA").replace("&\n", "")
    n = 0
    for line in data.split("\n"):
        m = re.match(r'\s*Magnetic_(Form|j2|j4|j6)\(\s*\d+\)\s*=\s*Magnetic_Form_Type\("([^"]*)",\s*\(/(.*)/\)\s*\)', line)
        if not m:
            continue
        kind = "form" if m.group(1) == "Form" else m.group(1)
        nums = [x.strip() for x in m.group(3).split(",")]
        evs.append({"ev": "cfml", "id": "cfml:%d" % n, "kind": kind, "label": codes(m.group(2).strip()),
                    "coef": [dec.to_dec(x) for x in nums]})
        n += 1
    path = rawtables.data_file("xsf", "f0_WaasKirf.dat")
    sym = None
    lines = open(path).read().split("\n")
    i = 0
    n = 0
    while i < len(lines):
        w = lines[i].split()
        if w and w[0] == "#S":
            sym = w[2]
        elif w and w[0] == "#L" and sym is not None:
            nums = lines[i + 1].split()
            evs.append({"ev": "dabax", "id": "dabax:%d" % n, "sym": codes(sym), "nums": [dec.to_dec(x) for x in nums]})
            n += 1
            sym = None
            i += 1
        i += 1
    return evs


def run(ctx):
    quick = ctx.tier == "quick"
    eb = rawtables.element_base()
    rows = table_events()
    header = {"symcodes": dict((str(z), codes(v[1])) for z, v in eb.items())}
    allz = sorted(eb)
    nb = 16
    batches = [allz[i::nb] for i in range(nb)]
    Qs = [0.0, 3.0] if quick else [0.0, 0.5, 1.0, 5.0, 10.0, 30.0]
    ions = dict((str(z), list(v[2])) for z, v in eb.items())
    outs = forkrun.map_fresh("ptv.ancexec", "serve", [{"zs": b, "private": True, "Qs": Qs, "ions": ions} for b in batches])
    per, byid = [], {}
    for b, (st, evs) in zip(batches, outs):
        if st != "ok":
            ctx.error("serve child failed: " + evs[-600:])
            return
        per.append(evs)
        for e in evs:
            byid[e["id"]] = e
            ctx.distinct(e["id"])
    rejected = {}

    def one(evs):
        return tracecheck.validate(ctx, "Trace_Anc", header, rows + evs, nshards=1, name="Trace_Anc")
    with ThreadPoolExecutor(max_workers=16) as ex:
        for rej in ex.map(one, per):
            rejected.update(rej)
    ctx.count("table rows read by the reference readers", len(rows))
    ctx.count("serve / evaluation events", sum(len(x) for x in per))
    for i, x in sorted(rejected.items()):
        e = byid.get(i, {})
        ctx.violation({"kind": "anc", "clause": x["clause"], "id": i, "z": e.get("z"), "q": e.get("q"), "table": e.get("T")})
    for e in per[1][:4]:
        ctx.sample(dict((k, v) for k, v in e.items() if k in ("id", "ev", "T", "z", "q", "jn")))
    ctx.cov["rule"] = ("reference readers consume the Cordero, crystal structure, emission line, CFML and DABAX tables; every element of the "
                       "public and a private table is compared (radius, uncertainty, structure, K lines, magnetic coefficient sets per "
                       "charge state, Cromer-Mann coefficients for the neutral atom, every ion and an undefined charge); magnetic form "
                       "factors are evaluated with Dec.Exp at Q in %s; distinct = events" % Qs)
    ctx.cov["exhaustive"] = True


def replay(ctx, path):
    run(ctx)
    return ctx.finish()
