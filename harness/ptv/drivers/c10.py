"""C10: private tables are isolated (histories with private-table events)."""
from .. import lazydrv

def run(ctx):
    quick = ctx.tier == "quick"
    configs = [([g], ["T1"], 1, 1) for g in lazydrv.ALL_GROUPS]
    if not quick:
        configs += [([g], ["T1", "T2"], 1, 1) for g in lazydrv.ALL_GROUPS]
    import random
    extra = lazydrv.private_scenarios(random.Random(ctx.seed + 1), 24 if quick else 200)
    lazydrv.load_fix_flags()
    sim = lazydrv.simulate_histories(ctx, ["T1", "T2"], 12, 4 if quick else 60, ctx.seed + 10)
    random.Random(ctx.seed).shuffle(sim)
    lazydrv.process(ctx, configs, quick, only_private=True, extra_histories=extra + sim[:(80 if quick else 3000)])

def replay(ctx, path):
    return lazydrv.replay(ctx, path)
