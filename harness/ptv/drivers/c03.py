"""C03: neutron SLD, cross sections and penetration follow the documented equations."""
import random
from .. import forkrun, tracecheck, neutgen

WAVELENGTHS = [0.05, 0.1, 0.5, 1.0, 1.798, 2.5, 4.75, 6.0, 12.0, 50.0, 0.9, 1.6234, 0.2, 0.3, 0.4, 0.7]


def tasks(ctx, quick):
    rng = random.Random(ctx.seed)
    gen = neutgen.Compounds(rng)
    items = []
    n = 700 if quick else 8000

    def add(t):
        t["id"] = "t%d" % len(items)
        if "T" not in t and rng.random() < 0.15:
            t["T"] = rng.choice(["T1", "T1", "T2"])
        if not t.get("T"):
            t.pop("T", None)
        items.append(t)
    for i in range(n):
        comp = gen.compound(nodata=(i % 23 == 0))
        t = {"kind": "scat", "compound": ["dict", comp]}
        rho = rng.choice([0.001, 0.1, 1.0, 2.2, 7.87, 19.3, 25.0, rng.uniform(0.01, 25)])
        t["density" if i % 3 else "natural_density"] = rho
        form = i % 4
        if form == 0:
            t["wavelength"] = rng.choice(WAVELENGTHS)
        elif form == 1:
            t["wavelength"] = rng.uniform(0.05, 50)
        elif form == 2:
            t["energy"] = rng.choice([0.0327, 1.0, 5.0, 25.3, 81.8, 500.0, 3272.0, rng.uniform(0.04, 30000)])
        else:
            t["wavelength"] = sorted(rng.sample(WAVELENGTHS, rng.randint(1, 4)))
            if i % 8 == 3:       # integer-valued vectors (integer array / list / tuple)
                t["wavelength"] = sorted(rng.sample([1, 2, 3, 4, 5, 6, 12], rng.randint(1, 4)))
            t["wform"] = rng.choice(["array", "list", "tuple"])
        t["via"] = ["formula", "kw", "carried", "formula", "kw", "carried-own"][i % 6 if i % 7 else 2]
        if i % 10 == 9 and not any(x[0] == 0 for x in comp):        # (the neutron cannot be written as text)
            # the calculator reads the text itself with table=T (T2: a table with its own masses)
            t["via"] = "sld-string-table"
            t["T"] = rng.choice(["T2", "T2", "T1", None])
            for kk in ("wform",):
                t.pop(kk, None)
        if "energy" in t and i % 3 == 0:
            t["wavelength_ignored"] = rng.choice([1.0, 4.75, 12.0])
        if t["via"] == "carried":
            t["carried"] = rng.choice([1.0, 3.3, 11.0])
        add(t)
    # energy-dependent atoms across their whole table range, including beyond both ends
    for z, a in gen.tablelike:
        for lam in ([0.05, 0.2859, 0.3, 0.52, 0.9, 1.798, 2.86, 5.0, 50.0] if not quick else [0.05, 0.52, 1.798, 50.0]):
            add({"kind": "scat", "compound": ["dict", [[z, a, 0, 1], [8, 0, 0, 3]]], "density": 7.0, "wavelength": lam})
            add({"kind": "atom", "atom": [z, a, 0], "wavelength": lam})
            if lam in (0.52, 50.0):         # the same on private tables
                add({"kind": "scat", "compound": ["dict", [[z, a, 0, 1], [8, 0, 0, 3]]], "density": 7.0, "wavelength": lam, "T": "T1"})
                add({"kind": "atom", "atom": [z, a, 0], "wavelength": lam, "T": "T2"})
    # every atom with data queried directly (element/isotope = one-atom compound at that atom's density)
    keys = gen.keys if not quick else rng.sample(gen.keys, 150)
    for z, a in keys:
        add({"kind": "atom", "atom": [z, a, 0], "wavelength": rng.choice(WAVELENGTHS)})
        add({"kind": "scat", "compound": ["atom", z, a, 0], "wavelength": rng.choice(WAVELENGTHS), "density": 1.0, "via": "formula"})
    # vacuum
    add({"kind": "scat", "compound": ["dict", [[1, 0, 0, 2], [8, 0, 0, 1]]], "density": 0.0, "wavelength": 1.8})
    return items


def run_items(ctx, items, label):
    nb = 32
    batches = [items[i::nb] for i in range(nb)]
    outs = forkrun.map_fresh("ptv.neutexec", "observe", [{"items": b} for b in batches])
    events = [{"ev": "kcheck", "id": "kcheck"}]
    byid = {}
    for b, (st, evs) in zip(batches, outs):
        if st != "ok":
            ctx.error("observe child failed: " + evs[-600:])
            return None, None
        events += evs
    for it in items:
        byid[it["id"]] = it
    raw = neutgen.raw_has_data()
    rawE = neutgen.raw_energy_dependent()
    for e in events:
        for part in e.get("ps", []):
            z, a, q = part["atom"]
            part["raw"] = bool(raw.get((z, a), False))
            part["rawE"] = (z, a) in rawE
    bad = [e for e in events if e["ev"] == "harness_exc"]
    events = [e for e in events if e["ev"] != "harness_exc"]
    for e in bad:
        ctx.violation({"kind": label, "clause": "CallRaised", "task": byid.get(e["id"].split("#")[0].split(":")[0]), "exc": e["exc"]})
    for e in events:
        ctx.distinct(e["id"])
    rejected = tracecheck.validate(ctx, "Trace_Neutron", neutgen.header(), events, name="Trace_Neutron")
    ctx.count("events", len(events))
    for i, x in sorted(rejected.items()):
        ctx.violation({"kind": label, "clause": x["clause"], "id": i, "task": byid.get(i.split("#")[0].split(":")[0])})
    for e in events[1:4]:
        ctx.sample({"id": e["id"], "task": byid.get(e["id"].split("#")[0].split(":")[0])})
    return events, rejected


def run(ctx):
    quick = ctx.tier == "quick"
    items = tasks(ctx, quick)
    run_items(ctx, items, "neutron")
    # the tabulated data the equations are evaluated on: the reference reader of the raw neutron tables (the C07 machinery)
    # checks what every atom serves and every node of the energy tables
    from . import c07
    c07.run(ctx)
    ctx.cov["exhaustive"] = False
    ctx.cov["rule"] = ("[data leg: Trace_Nsf reader over nsftable / nsftableI / energy tables, every atom and node served] + " +"seeded compounds over every atom with neutron data (rotating; ions; energy-dependent entries inside, at and beyond "
                       "their table range; atoms without data), densities via density= and natural_density=, wavelength scalar / vector / "
                       "energy=; every atom also queried directly; each call is an event carrying the per-atom data served, validated by "
                       "TLC against the documented equations; distinct = events")


def replay(ctx, path):
    import json
    with open(path) as f:
        data = json.load(f)
    items = [v["task"] for v in data["violations"] if v.get("task")]
    run_items(ctx, items, "neutron")
    return ctx.finish()
