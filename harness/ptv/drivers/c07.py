"""C07: neutron data of every element and isotope are those of the embedded table."""
from concurrent.futures import ThreadPoolExecutor
from decimal import Decimal
from .. import forkrun, tracecheck, rawtables, dec


def fixlex(field):
    f = field.strip()
    return rawtables.lex_unc(f.replace("<", "").replace("*", ""))


def table_events():
    evs = []
    for i, line in enumerate(rawtables.const("nsf", "nsftable").split("\n")):
        c = line.split(",")
        parts = c[0].split("-")
        p = c[1]
        evs.append({"ev": "nsfrow", "id": "nsfrow:%d" % i, "z": int(parts[0]), "sym": parts[1],
                    "a": int(parts[2]) if len(parts) == 3 else 0,
                    "halflife": " " in p, "p": fixlex(p) if " " not in p else {"k": "empty"}, "spin": c[2],
                    "b_c": fixlex(c[3]), "bp": fixlex(c[4]), "bm": fixlex(c[5]), "flag": c[6],
                    "coh": fixlex(c[7]), "inc": fixlex(c[8]), "total": fixlex(c[9]), "abs": fixlex(c[10])})
    for i, line in enumerate(rawtables.const("nsf", "nsftableI").split("\n")):
        c = line.split(",")
        parts = c[0].split("-")
        evs.append({"ev": "nsfI", "id": "nsfI:%d" % i, "z": int(parts[0]), "a": int(parts[2]) if len(parts) == 3 else 0,
                    "b_c_i": fixlex(c[1]), "bp_i": fixlex(c[2]), "bm_i": fixlex(c[3])})
    evs.append({"ev": "kcheck", "id": "kcheck"})
    return evs


def run(ctx):
    eb = rawtables.element_base()
    rows = table_events()
    c = rawtables.module_constants("constants")
    D = lambda x: Decimal(repr(x))
    K = (D(c["plancks_constant"]) ** 2 * D(c["electron_volt"]) / (2 * D(c["neutron_mass"]) * D(c["atomic_mass_constant"]))) * Decimal(10) ** 23
    header = {"symof": dict((str(z), v[1]) for z, v in eb.items()), "energy_factor": dec.to_dec(K),
              "consts": dict((k, dec.to_dec(c[k])) for k in ("plancks_constant", "electron_volt", "neutron_mass", "atomic_mass_constant"))}
    allz = sorted(eb)
    nb = 15
    batches = [allz[i::nb] for i in range(nb)]
    outs = forkrun.map_fresh("ptv.nsfexec", "serve", [{"zs": b, "private": True, "variant": i % 6} for i, b in enumerate(batches)])
    st, nodes = forkrun.call_fresh("ptv.nsfexec", "nodes", {})
    if st != "ok":
        ctx.error("node child failed: " + nodes[-500:])
        return
    per = []
    byid = {}
    for b, (st, evs) in zip(batches, outs):
        if st != "ok":
            ctx.error("serve child failed: " + evs[-600:])
            return
        if evs and evs[0].get("ev") == "firsttouch":
            ctx.violation({"kind": "nsf", "clause": "FirstTouchServes", "variant": evs[0]["variant"], "exc": evs[0]["exc"],
                           "what": ["", "nsf.init(elements)", "elements.Fe[56].nuclear_spin", "elements.Fe.ion[2].neutron"][evs[0]["variant"]]
                                   + " as the first touch of neutron data in a fresh interpreter raised"})
            evs = []
        per.append(evs)
        for e in evs:
            byid[e["id"]] = e
            ctx.distinct(e["id"])
    per.append(nodes)
    for e in nodes:
        byid[e["id"]] = e
        ctx.distinct(e["id"])
    rejected = {}

    def one(evs):
        return tracecheck.validate(ctx, "Trace_Nsf", header, rows + evs, nshards=1, name="Trace_Nsf")
    with ThreadPoolExecutor(max_workers=16) as ex:
        for rej in ex.map(one, per):
            rejected.update(rej)
    ctx.count("table rows read by the reference reader", len(rows))
    ctx.count("atoms served (public + private)", sum(len(x) for x in per[:-1]))
    ctx.count("energy-table nodes", len(nodes))
    for i, x in sorted(rejected.items()):
        e = byid.get(i, {})
        ctx.violation({"kind": "nsf", "clause": x["clause"], "id": i, "z": e.get("z"), "a": e.get("a"), "table": e.get("T"), "exc": e.get("exc")})
    for e in per[0][:2] + nodes[:2]:
        ctx.sample(dict((k, v) for k, v in e.items() if k in ("id", "T", "z", "a", "kind")))
    ctx.cov["rule"] = ("the reference reader (Trace_Nsf) consumes all rows of nsftable and nsftableI; every element and isotope of the public "
                       "and a fresh private table (in the table or not) and every node of the 14 energy-dependent tables plus natural Lu "
                       "is compared; distinct = atoms / nodes served")
    ctx.cov["exhaustive"] = True


def replay(ctx, path):
    run(ctx)
    return ctx.finish()
