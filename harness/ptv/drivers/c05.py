"""C05: X-ray factors, SLD and refraction follow the tables and documented equations."""
import os
import random
from concurrent.futures import ThreadPoolExecutor
from decimal import Decimal
from .. import forkrun, tracecheck, rawtables, dec


def read_nff(sym):
    path = rawtables.data_file("xsf", sym.lower() + ".nff")
    if not os.path.exists(path):
        return None
    rows = []
    for i, line in enumerate(open(path).read().split("\n")[1:]):
        f = line.split()
        if len(f) < 3:
            continue
        rows.append((f[0], f[1], f[2]))
    return rows


def run(ctx):
    quick = ctx.tier == "quick"
    rng = random.Random(ctx.seed)
    eb = rawtables.element_base()
    c = rawtables.module_constants("constants")
    D = lambda x: Decimal(repr(x))
    header = {"hc": dec.to_dec(D(c["plancks_constant"]) * D(c["speed_of_light"]) * Decimal(10) ** 7),
              "electron_radius": dec.to_dec(c["electron_radius"]), "avogadro": dec.to_dec(c["avogadro_number"]),
              "consts": {"plancks_constant": dec.to_dec(c["plancks_constant"]), "speed_of_light": dec.to_dec(c["speed_of_light"])}}
    with_table = [z for z in sorted(eb) if z >= 1 and read_nff(eb[z][1]) is not None]
    def first_tabulated(z):
        return min(float(r[0]) for r in read_nff(eb[z][1]) if r[1] != "-9999.")
    # most tables flag f1 as missing below 29.3 eV; a few (decided here from the raw rows) have values from ~19 eV on
    early = [z for z in with_table if first_tabulated(z) < 29.0]
    chosen = with_table if not quick else sorted(set(rng.sample(with_table, 12)) | {14} | set(rng.sample(early, min(2, len(early)))))
    # (Si: the one table with unsorted rows)
    without = [z for z in sorted(eb) if z >= 1 and z not in with_table]
    # ---- interpolation events per element
    items, rows_of = [], {}

    def add(t):
        t["id"] = "t%d" % len(items)
        items.append(t)
    for z in chosen:
        rows = read_nff(eb[z][1])
        rows_of[z] = rows
        Es = [float(r[0]) / 1000.0 for r in rows]
        n = len(Es)
        idx = list(range(n)) if not quick else sorted(rng.sample(range(n), 25))
        if quick:       # always: the rows around every switch between flagged and tabulated f1
            sw = [i for i in range(n - 1) if (rows[i][1] == "-9999.") != (rows[i + 1][1] == "-9999.")]
            idx = sorted(set(idx) | set(k for i in sw for k in range(max(0, i - 3), min(n, i + 6))))
        pts = []
        for i in idx:
            pts.append(Es[i])                                   # node
            if i + 1 < n and Es[i + 1] > Es[i]:
                pts.append(Es[i] + (Es[i + 1] - Es[i]) * rng.choice([0.5, 0.25, 0.9, rng.random()]))   # inside the interval
        for i in range(n - 1):                                  # both sides of duplicated-energy (edge) rows
            if Es[i + 1] == Es[i]:
                pts += [Es[i] * (1 - 1e-7), Es[i] * (1 + 1e-7)]
        for i in range(n - 1):                                  # intervals that join a flagged (f1 = -9999) row to a tabulated one
            if (rows[i][1] == "-9999.") != (rows[i + 1][1] == "-9999.") and Es[i + 1] > Es[i]:
                pts += [Es[i] + (Es[i + 1] - Es[i]) * x for x in (0.5, 0.03, 0.97, rng.random())]
        for i in range(n - 1):                                  # rows out of order (a defect of the data file)
            if Es[i + 1] < Es[i]:
                pts += [Es[i], Es[i + 1] * (1 + 1e-9), (Es[i] + Es[i + 1]) / 2]
        pts += [Es[0] * (1 - 1e-9), Es[0] * 0.5, Es[0], Es[-1], Es[-1] * (1 + 1e-9), Es[-1] * 2, Es[1] * (1 - 1e-12)]
        for j, E in enumerate(pts):
            add({"kind": "sf", "z": z, "E": [E], "wavelength": (j % 5 == 0), "via": rng.choice(["el", "el", "ion", "iso"])})
        for j in range(3 if quick else 10):
            Ev = sorted(rng.sample(pts, min(len(pts), 6)))
            if j % 3 == 1:          # as a caller may write them: any order, a value twice
                rng.shuffle(Ev)
                Ev.append(Ev[0])
            add({"kind": "sf", "z": z, "E": Ev, "vector": True, "wavelength": (j % 2 == 0)})
    for z in without[:8]:
        add({"kind": "sf", "z": z, "E": [8.0]})
    # ions of isotopes have the factors of their element: the named hydrogen isotopes D and T (whose symbol is not the
    # element's) in both charge states, and one isotope ion of every chosen element that has ions
    iso_all = rawtables.isotope_list()
    for a, q in ((2, 1), (3, 1), (2, -1), (3, -1), (1, 1)):
        if q in eb[1][2]:
            for E in (0.03, 1.0, 8.048, 29.9, 0.005):
                add({"kind": "sf", "z": 1, "E": [E], "via": [a, q]})
    rows_of.setdefault(1, read_nff(eb[1][1]))
    for z in chosen:
        if eb[z][2] and iso_all.get(z):
            add({"kind": "sf", "z": z, "E": [rng.choice([0.5, 8.048, 17.479])], "via": [rng.choice(iso_all[z]), rng.choice(eb[z][2])]})
    # ---- compounds, relations, reflectivity, f0
    others = []

    def addo(t):
        t["id"] = "o%d" % len(others)
        others.append(t)
    energies = [0.03, 0.1, 0.5, 1.0, 2.5, 5.4, 8.048, 8.9, 17.479, 25.0, 29.9, 0.0105, 30.0, 31.0, 0.005]
    for i in range(300 if quick else 4000):
        zs = rng.sample(with_table, rng.randint(1, 4))
        comp = []
        for z in zs:
            kind = rng.random()
            isos = rawtables.isotope_list().get(z, [])
            a = rng.choice(isos) if (kind < 0.3 and isos) else 0
            q = rng.choice(eb[z][2]) if (0.3 <= kind < 0.5 and eb[z][2]) else 0
            comp.append([z, a, q, rng.choice([1, 2, 3, 0.5, 7, 12])])
        if i % 4 == 1:      # one element present in two forms (two isotopes, natural + isotope, two charge states)
            z, a, q, _ = comp[0]
            isos = rawtables.isotope_list().get(z, [])
            twin = [z, rng.choice(isos) if isos else 0, q, rng.choice([1, 2, 0.5])]
            if eb[z][2] and rng.random() < 0.5:
                twin = [z, a, rng.choice(eb[z][2]), rng.choice([1, 2, 3])]
            if (twin[1], twin[2]) != (a, q):
                comp.append(twin)
        rho = rng.choice([0.5, 1.0, 2.33, 7.87, 19.3, rng.uniform(0.01, 22)])
        E = rng.choice(energies + [rng.uniform(0.011, 29.9)])
        m = i % 6
        if m in (0, 1):
            addo({"kind": "sld", "compound": ["dict", comp], "density": rho, "E": E, "by": "wavelength" if m else "energy"})
        elif m == 2:
            addo({"kind": "rel", "rel": "energy", "compound": ["dict", comp], "density": rho, "E": E})
        elif m == 3:
            addo({"kind": "rel", "rel": "density", "compound": ["dict", comp], "density": rho, "E": E, "k": rng.choice([0.5, 2.0, 3.3, 10.0])})
        elif m == 4:
            Es = sorted(rng.sample(energies[:11], 4))
            if i % 12 == 4:
                rng.shuffle(Es)
            addo({"kind": "rel", "rel": "vector", "compound": ["dict", comp], "density": rho, "E": E, "vector": Es, "index": rng.randrange(4)})
        else:
            iso_l = rawtables.isotope_list()
            vm = {}
            for z, a, q, n in comp:
                k3 = (z, (rng.choice(iso_l[z]) if iso_l.get(z) else 0), q)
                vm[k3] = vm.get(k3, 0) + n
            variant = [[z, a, q, n] for (z, a, q), n in vm.items()]
            merged = {}
            for z, a, q, n in comp:          # the same element twice: one entry of natural abundance with the summed count
                merged[(z, q)] = merged.get((z, q), 0) + n
            base = [[z, 0, q, n] for (z, q), n in merged.items()]
            addo({"kind": "rel", "rel": "isotope", "compound": ["dict", base], "variant": ["dict", variant], "density": rho, "E": E})
    for z in (chosen if quick else with_table):
        addo({"kind": "elsld", "z": z, "E": rng.choice(energies[:11])})
        addo({"kind": "elsld", "z": z, "E": rng.choice(energies[:11]), "edited": True})
    for i in range(12 if quick else 120):
        z = rng.choice(with_table)
        addo({"kind": "refl", "compound": ["atom", z, 0, 0], "density": rng.choice([1.0, 2.33, 8.9, 19.3]),
              "energies": sorted(rng.sample(energies[:11], 5)), "angles": [0.0, 0.05, 0.2, 1.0, 5.0, 45.0, 90.0],
              "roughness": rng.choice([0, 0, 3.0])})
    iso_l = rawtables.isotope_list()
    f0atoms = []
    for z in sorted(eb):
        if z < 1 or z > 98:
            continue
        f0atoms.append([z, 0, 0])
        for q in eb[z][2]:
            f0atoms.append([z, 0, q])
        if iso_l.get(z):
            f0atoms.append([z, rng.choice(iso_l[z]), 0])
            if eb[z][2]:
                f0atoms.append([z, rng.choice(iso_l[z]), rng.choice(eb[z][2])])
    for a in f0atoms:
        addo({"kind": "f0", "atom": a, "Q": rng.choice([0.5, 1.0, 5.0, 20.0, 70.0])})
    # ---- execute
    nb = 16
    # the neutron (symbol 'n') has no table and nitrogen (file n.nff) has one, whichever of the two an interpreter asks first
    rows_of.setdefault(7, read_nff(eb[7][1]))
    nE = [float(r[0]) / 1000.0 for r in rows_of[7]]
    order = []
    for first, second in ((0, 7), (7, 0)):
        ts = []
        for z in (first, second, first):
            for E in (nE[len(nE) // 2], 8.048, rng.choice(nE)):
                ts.append({"kind": "sf", "z": z, "E": [E], "via": "el", "id": "ord%d_%d" % (first, len(ts))})
        order.append(ts)               # (these run in interpreters of their own, in this order)
    outs = forkrun.map_fresh("ptv.xrayexec", "observe", [{"items": items[i::nb]} for i in range(nb)] +
                             [{"items": others[i::nb]} for i in range(nb)] + [{"items": ts} for ts in order])
    items += [t for ts in order for t in ts]
    sf_by_z, oth = {}, [{"ev": "kcheck", "id": "kcheck"}]
    task = dict((t["id"], t) for t in items + others)
    for k, (st, evs) in enumerate(outs):
        if st != "ok":
            ctx.error("observe child failed: " + evs[-600:])
            return
        for e in evs:
            if e["ev"] == "harness_exc":
                ctx.violation({"kind": "xray", "clause": "CallRaised", "task": task.get(e["id"]), "exc": e["exc"]})
            elif e["ev"] == "sf":
                sf_by_z.setdefault(e["z"], []).append(e)
            else:
                oth.append(e)
    rejected = {}
    nrows = 0

    def one(z):
        rows = rows_of.get(z)
        hdr_rows = []
        if rows:
            for i, (E, f1, f2) in enumerate(rows):
                hdr_rows.append({"ev": "nffrow", "id": "nff:%d:%d" % (z, i), "E": dec.to_dec(E),
                                 "f1": {"k": "missing"} if f1 == "-9999." else {"k": "num", "v": dec.to_dec(f1)}, "f2": dec.to_dec(f2)})
        return len(hdr_rows), tracecheck.validate(ctx, "Trace_Xray", header, hdr_rows + sf_by_z[z], nshards=1, name="Trace_Xray (table of %s)" % eb[z][1])
    with ThreadPoolExecutor(max_workers=16) as ex:
        for n, rej in ex.map(one, sorted(sf_by_z)):
            nrows += n
            rejected.update(rej)
    rejected.update(tracecheck.validate(ctx, "Trace_Xray", header, oth, name="Trace_Xray (compounds)"))
    ctx.count("nff rows read", nrows)
    ctx.count("scattering factor events", sum(len(v) for v in sf_by_z.values()))
    ctx.count("compound / relation / reflectivity / f0 events", len(oth))
    for e in oth + [x for v in sf_by_z.values() for x in v]:
        ctx.distinct(e["id"])
    def region(i):
        """rows whose energy is lower than the row before (a defect of the data file): interpolation is not defined there"""
        if i.startswith("nff:"):
            _, z, r = i.split(":")
            return "unsorted-rows:%s:%s" % (z, r)
        t = task.get(i.split("#")[0]) or {}
        if t.get("kind") == "sf" and t["z"] in rows_of:
            rows = rows_of[t["z"]]
            for r in range(1, len(rows)):
                lo, hi = float(rows[r][0]) / 1000.0, float(rows[r - 1][0]) / 1000.0
                idx = int(i.split("#")[1]) if "#" in i else 0
                Es_ = [t["E"][idx]] if idx < len(t["E"]) else t["E"]
                if lo < hi and all(lo * (1 - 1e-6) <= E <= hi * (1 + 1e-6) for E in Es_):
                    return "unsorted-rows:%d:%d" % (t["z"], r)
        return "general"
    for i, x in sorted(rejected.items()):
        ctx.violation({"kind": "xray", "clause": x["clause"], "id": i, "task": task.get(i.split("#")[0]), "region": region(i)})
    for t in items[:2] + others[:3]:
        ctx.sample(t)
    ctx.cov["elements_with_tables_checked"] = len(chosen)
    ctx.cov["rule"] = ("per element (12 seeded in quick, all 92 in thorough) the raw .nff rows are read by the reference reader and f1/f2 are "
                       "compared at nodes, interior points, both sides of duplicated edge energies, just inside/outside both ends, via "
                       "element/ion/isotope, energy= and wavelength=, scalar and vector; compounds: SLD and refraction equations on the "
                       "factors served, energy=wavelength, density linearity, vector=scalar, isotope independence; reflectivity range; "
                       "f0 limits for every atom/ion with coefficients; distinct = events")


def replay(ctx, path):
    run(ctx)
    return ctx.finish()
