"""C17: the composite SLD calculator equals the direct calculation on the weighted sum."""
import random
from .. import neutgen
from .c03 import run_items, WAVELENGTHS


def tasks(ctx, quick):
    rng = random.Random(ctx.seed + 17)
    gen = neutgen.Compounds(rng)
    items = []
    n = 400 if quick else 5000
    for i in range(n):
        nm = rng.randint(1, 4)
        mats = [["dict", gen.compound(nmin=1, nmax=3, with_table=(rng.random() < 0.35))] for _ in range(nm)]
        if nm >= 2 and i % 5 == 0:
            mats[-1] = mats[0]                      # repeated material
        if i % 7 == 0:
            mats[0] = ["dict", [[1, 0, 0, 2], [8, 0, 0, 1]]]   # incoherent-dominated, and with Ti-like negatives below
        if i % 11 == 0:
            mats.append(["dict", [[22, 0, 0, 1]]])
        if i % 6 == 2 and nm >= 2:
            mats = [["named", "sample", m] for m in mats]        # different materials under one name
        if i % 6 == 5:
            base = gen.compound(nmin=2, nmax=2)
            twin = [list(x) for x in base]
            twin[0][3] = twin[0][3] * (1 + 1e-8)                 # differs beyond the printed precision
            mats = [["dict", base], ["dict", twin]] + mats[:1]
        ws = [rng.choice([0, 0, 1, 2, 0.5, 3.25, 1e-3, 10]) for _ in mats]
        if i % 13 == 1:
            ws = [0 for _ in mats]
        rho = rng.choice([0.0, 1.0, 2.5, 7.0, rng.uniform(0.1, 20)]) if i % 9 else 0.0
        form = i % 3
        lam = rng.choice(WAVELENGTHS) if form == 0 else ([rng.choice(WAVELENGTHS)] if form == 1 else sorted(rng.sample(WAVELENGTHS, rng.randint(2, 5))))
        if form == 2 and i % 2:          # a vector is any sequence of wavelengths: not increasing, with a repeated value,
            lam = rng.sample(lam, len(lam)) + ([lam[0]] if i % 4 == 1 else [])
        if form == 2 and i % 10 == 4:    # or a grid of whole numbers (a list / array of ints)
            lam = rng.sample([1, 2, 3, 4, 5, 6, 12], rng.randint(2, 4))
        if i % 8 == 3:           # weights as tiny absolute amounts (picomoles) / a residual-gas density
            k = rng.choice([1e-12, 1e-9, 1e-15])
            ws = [w * k for w in ws]
        if i % 8 == 7:
            rho = rng.choice([1e-10, 1e-12, 1e-7])
        items.append({"id": "t%d" % i, "kind": "comp", "materials": mats, "weights": ws, "density": rho, "wavelength": lam,
                      "again": i % 4 == 2, "reuse_args": i % 5 == 1})
        if form != 0:
            items[-1]["wform"] = ["array", "list", "asis", "tuple", "array", "asis"][(i // 3) % 6]
        if form == 0 and i % 6 == 3:
            items[-1]["wavelength"] = 1.798       # ... and the calculator is built without naming it
            items[-1]["omit_wavelength"] = True
        if form == 0 and i % 6 == 0:
            items[-1]["wavelength"] = rng.choice([1, 2, 5, 12])
            items[-1]["wtype"] = rng.choice(["int64", "float32", "int32", "float64"])
    return items


def run(ctx):
    quick = ctx.tier == "quick"
    run_items(ctx, tasks(ctx, quick), "composite")
    ctx.cov["rule"] = ("lists of 1-5 materials (energy-dependent isotopes, repeated materials, H2O / Ti for the clipped incoherent term), weight "
                       "vectors with zeros / all zero, densities >= 0, scalar / length-1 / length-n wavelengths; the composite result and the "
                       "direct neutron_sld of sum w_i material_i are both validated against the equations on the per-atom data served, and "
                       "the output shape against the wavelength argument; distinct = events")


def replay(ctx, path):
    import json
    with open(path) as f:
        data = json.load(f)
    run_items(ctx, [v["task"] for v in data["violations"] if v.get("task")], "composite")
    return ctx.finish()
