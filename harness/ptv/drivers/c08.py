"""C08: atoms are unique per table; every lookup route returns the same object."""
import json, os, random, shutil, tempfile
from concurrent.futures import ThreadPoolExecutor
from .. import tlc, forkrun, rawtables


def shape():
    eb = rawtables.element_base()
    isos = rawtables.isotope_list()
    els = dict((str(z), {"sym": v[1], "name": v[0].lower(), "ions": list(v[2]), "isos": isos.get(z, [])})
               for z, v in eb.items())
    return els


SIM_CFG = """SPECIFICATION SSpec
CONSTANTS
  TabNames = %s
  Zs = {1, 8}
  CtorIso <- MCCtor
  IsoOf <- MCIso
  ExtraIso <- MCExtra
  IonOf <- MCIon
  MaxLen = %d
  EmitOneIn = %d
INVARIANT EmitHist
"""


def replay_behaviours(ctx, quick, tabs=("T1",), share=1.0):
    maxlen = 14 if quick else 22
    num = max(4, int((25 if quick else 150) * share))
    res = tlc.run("MC_CoreSim", SIM_CFG % ("{" + ", ".join('"%s"' % t for t in tabs) + "}", maxlen, 8 if quick else 25), workers=16,
                  simulate="num=%d" % num, depth=maxlen + 3, seed=ctx.seed + 8 + len(tabs), timeout=900)
    if res.rc != 0:
        ctx.error("MC_CoreSim: " + tlc.brief(res.out))
        return False
    by_prefix = {}
    for x in res.iter_printed():          # (every last-step sibling of every trace is printed: keep at most 4 per prefix)
        h = x["hist"]
        k = json.dumps([s["act"] for s in h[:-1]], sort_keys=True)
        d = by_prefix.setdefault(k, {})
        if len(d) < 4:
            d[json.dumps(h[-1]["act"], sort_keys=True)] = h
    rng = random.Random(ctx.seed)
    hs = []
    for k in sorted(by_prefix):
        v = by_prefix[k]
        for kk in rng.sample(sorted(v), min(3, len(v))):
            hs.append(v[kk])
    res.distinct = len(hs)
    ctx.tlc("MC_CoreSim (-simulate, behaviours of %d calls with the heap after each; private tables %s)" % (maxlen, "+".join(tabs)), res)
    els = shape()
    outs = forkrun.map_fresh("ptv.corereplay", "replay", [{"seed": ctx.seed * 100003 + i, "hist": h, "shape": els} for i, h in enumerate(hs)])
    ops = {}
    for h, (st, o) in zip(hs, outs):
        if st != "ok":
            ctx.error("replay child failed: " + o[-800:])
            return False
        ctx.cov["traces_replayed_into_impl"] = ctx.cov.get("traces_replayed_into_impl", 0) + 1
        for s_ in o["steps"]:
            k = "%s:%s" % (s_["op"], s_["want"])
            ops[k] = ops.get(k, 0) + 1
        for pr in o["problems"]:
            ctx.violation(dict(pr, kind="core-replay", calls=[s_["act"] for s_ in h[1:pr["step"] + 1]]))
    ctx.count("replayed calls (%s)" % "+".join(tabs), sum(ops.values()))
    ctx.cov.setdefault("replayed_calls_by_action_and_outcome", {})["+".join(tabs)] = ops
    return True


def run(ctx):
    quick = ctx.tier == "quick"
    # ---- design level: TLC on the small identity model
    res = tlc.run("MC_Core", os.path.join(tlc.VERIF, "mc", "MC_Core_quick.cfg" if quick else "MC_Core.cfg"), workers=16, timeout=1800)
    ctx.tlc("MC_Core exhaustive (public + 1 private table, H with D and a second element, mass loader, lazy ions%s, restore, "
            "change_table, dropped table references)" % ("" if quick else ", add_isotope of a new mass number"), res)
    if res.rc != 0:
        ctx.error("MC_Core: " + tlc.brief(res.out))
        return
    # ---- spec -> code: behaviours of the same model (TLC -simulate, history variable) replayed call by call
    if not replay_behaviours(ctx, quick):
        return
    # ... and with two private tables (the exhaustive model has one): atoms moved between private tables, restores that
    # must find the right one of two registered tables
    if not replay_behaviours(ctx, quick, tabs=("T1", "T2"), share=0.4):
        return
    # ---- code -> spec: exhaustive sweep of the real tables, validated by TLC
    els = shape()
    allz = sorted(int(z) for z in els)
    rng = random.Random(ctx.seed)
    order = list(allz)
    rng.shuffle(order)
    nsh = 32
    batches = [sorted(order[i::nsh]) for i in range(nsh)]
    args = [{"zs": b, "seed": ctx.seed * 1000 + i, "shape": els, "iter": True, "misc": i == 0,
             "iso_ion_fraction": 0.34 if quick else 1.0} for i, b in enumerate(batches)]
    outs = forkrun.map_fresh("ptv.corexec", "sweep", args)
    hdr = {"ev": "shape", "allz": allz,
           "symz": dict((v["sym"], int(z)) for z, v in els.items()),
           "namez": dict((v["name"], int(z)) for z, v in els.items()),
           "symof": dict((z, v["sym"]) for z, v in els.items()),
           "nameof": dict((z, v["name"]) for z, v in els.items())}
    scratch = tempfile.mkdtemp(prefix="ptv-core-")
    try:
        paths = []
        nev = 0
        for i, (b, (st, evs)) in enumerate(zip(batches, outs)):
            if st != "ok":
                ctx.error("sweep child failed: " + evs[-800:])
                return
            p = os.path.join(scratch, "core%d.ndjson" % i)
            with open(p, "w") as f:
                f.write(json.dumps(dict(hdr, els=dict((str(z), els[str(z)]) for z in (set(b) | ({1, 8, 26, 28, 92} if i == 0 else set()))))) + "\n")
                for e in evs:
                    f.write(json.dumps(e) + "\n")
            nev += len(evs)
            paths.append((p, len(evs), evs))
            for e in evs:
                if e["ev"] == "L" and "exc" not in e["res"]:
                    ctx.distinct(e["res"]["tab"] + ":" + e["res"]["id"])
        cfg = "SPECIFICATION TraceSpec\nPOSTCONDITION Done\n"

        def one(p):
            return tlc.run("Trace_Core", cfg, workers=1, env={"TRACE_FILE": p[0]}, timeout=1700, heap="3g")
        with ThreadPoolExecutor(max_workers=16) as ex:
            results = list(ex.map(one, paths))
        for (p, n, evs), r in zip(paths, results):
            ctx.tlc("Trace_Core", r)
            recs = r.printed()
            summ = [x for x in recs if x.get("summary")]
            if r.rc != 0 or not summ or summ[0]["events"] != n:
                ctx.error("Trace_Core failed: " + tlc.brief(r.out))
                continue
            ctx.cov["traces_validated_against_impl"] += 1
            ctx.count("lookups", n)
            for x in recs:
                if x.get("summary"):
                    continue
                e = x["e"]
                ctx.violation({"kind": "core", "clause": x["clause"], "route": e.get("r", e["ev"]), "table": e.get("T"),
                               "input": e.get("in"), "res": e.get("res")})
        for (p, n, evs) in paths[:2]:
            for e in evs[:3]:
                ctx.sample(e)
    finally:
        shutil.rmtree(scratch, ignore_errors=True)
    ctx.cov["rule"] = ("one event per lookup (route, input, returned object's id and fields or exception) over every element, "
                       "isotope, element ion and %s isotope ions of the public and a private table, with invalid neighbours; "
                       "distinct_nontrivial = distinct atom objects seen" % ("a seeded third of the" if quick else "all"))
    ctx.cov["exhaustive"] = not quick


def replay(ctx, path):
    run(ctx)
    return ctx.finish()
