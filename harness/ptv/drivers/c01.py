"""C01: a formula string denotes exactly the composition its documented grammar says."""
import random
from fractions import Fraction
from .. import forkrun, gramgen, atoms as atomsmod

ALL_COUNTS = ["", "2", "3", "10", "0.5", "1.5", ".25", "3.", "2.0"]
DENS = {"@2": ("i", 2.0), "@1.5n": ("n", 1.5), "@0.75i": ("i", 0.75), "@10": ("i", 10.0), "@.5n": ("n", 0.5)}


def close(a, b, tol=1e-12):
    return abs(a - b) <= tol * max(abs(a), abs(b), 1e-300)


def atom_malformations(atom, uni, rng):
    """Renderings of one atom that are outside the grammar or name something the table does not define."""
    eb, isos = uni["eb"], uni["isos"]
    sym = atom.sym
    out = []
    base = atomsmod.Atom(atom.sym, atom.z, atom.a, 0, atom.alias).render()
    ion = atom.render()[len(base):]
    isolist = isos.get(atom.z, [])
    if not atom.alias:
        badA = (max(isolist) + 1) if isolist else 1
        out.append(("isotope-undefined", "%s[%d]%s" % (sym, badA, ion)))
        out.append(("isotope-zero", "%s[0]%s" % (sym, ion)))
        out.append(("isotope-empty", "%s[]%s" % (sym, ion)))
        out.append(("isotope-unclosed", "%s[%d%s" % (sym, isolist[0] if isolist else 1, ion)))
        if isolist:
            out.append(("isotope-leading-zero", "%s[0%d]%s" % (sym, isolist[0], ion)))
            out.append(("isotope-space", "%s [%d]%s" % (sym, isolist[0], ion)))
            out.append(("isotope-negative", "%s[-%d]%s" % (sym, isolist[0], ion)))
            out.append(("isotope-decimal", "%s[%d.0]%s" % (sym, isolist[0], ion)))
    else:
        out.append(("alias-with-isotope", "%s[2]%s" % (sym, ion)))
    ions = eb[atom.z][2]
    cand = [q for q in (9, -9, 8, -7, 5, -5) if q not in ions]
    q = cand[0]
    out.append(("ion-undefined", "%s{%d%s}" % (base, abs(q), "+" if q > 0 else "-")))
    if 1 not in ions:
        out.append(("ion-undefined-unit", "%s{+}" % base))
    if -1 not in ions:
        out.append(("ion-undefined-unit", "%s{-}" % base))
    if ions:
        q = ions[0]
        n, sg = abs(q), ("+" if q > 0 else "-")
        out.append(("ion-no-sign", "%s{%d}" % (base, n)))
        out.append(("ion-sign-first", "%s{%s%d}" % (base, sg, n)))
        out.append(("ion-leading-zero", "%s{0%d%s}" % (base, n, sg)))
        out.append(("ion-space", "%s {%d%s}" % (base, n, sg)))
        out.append(("ion-unclosed", "%s{%d%s" % (base, n, sg)))
        out.append(("ion-two-signs", "%s{%d%s%s}" % (base, n, sg, sg)))
        if isolist and not atom.alias:
            out.append(("ion-before-isotope", "%s{%d%s}[%d]" % (sym, n, sg, isolist[0])))
    units = {"cm", "mm", "nm", "um", "ng", "ug", "mg", "kg", "g", "l", "ml", "ul", "nl"}
    out.append(("ion-zero", "%s{0+}" % base))
    out.append(("ion-empty", "%s{}" % base))
    if len(sym) == 1:
        out.append(("symbol-lowercase", sym.lower() + ion))
    else:
        out.append(("symbol-lowercase", sym.lower() + ion))
        out.append(("symbol-uppercase", sym.upper() + ion) if sym.upper() not in _valid_pairs(eb, sym.upper()) else ("skip", ""))
    # a lower-cased symbol that spells a unit turns some contexts into a mixture quantity ("2cm O"): not a malformation
    return [x for x in out if x[0] != "skip" and not (x[0] == "symbol-lowercase" and sym.lower() in units)]


def _valid_pairs(eb, s):
    """Is the all-caps string readable as a sequence of valid symbols (e.g. 'CO', 'NI')? then it is not malformed."""
    syms = set(v[1] for v in eb.values()) | {"D", "T"}
    ok = set()
    # simple check: every way to split s into symbols of length 1-2
    def rec(i):
        if i == len(s):
            return True
        for L in (1, 2):
            if s[i:i + L] in syms and len(s[i:i + L]) == L and rec(i + L):
                return True
        return False
    if rec(0):
        ok.add(s)
    return ok


def run(ctx):
    quick = ctx.tier == "quick"
    rng = random.Random(ctx.seed)
    uni = atomsmod.universe(rng, 400 if quick else 3000)
    rot = atomsmod.Rotor(uni, rng)
    recs = []
    recs += gramgen.generate(ctx, "structures", 3, 2, 1, 2, ["", "2"], [" "], ["@2", "@1.5n"])
    if quick:
        recs += gramgen.generate(ctx, "counts+separators", 2, 2, 1, 2, ["", "3", "0.5", ".25"], ["+", " + "], [])
    else:
        recs += gramgen.generate(ctx, "counts+separators", 2, 2, 1, 2, ["", "3", "0.5", "10", ".25", "3."], [" ", "+", " + "], [],
                                 timeout=1500)
        recs += gramgen.generate(ctx, "deep structures", 3, 2, 2, 3, ["", "2"], [" "], [], timeout=1500)
    recs += gramgen.generate(ctx, "deep", 7, 3, 3, 4, ALL_COUNTS, [" ", "+", " + ", "  "], sorted(DENS),
                             simulate=(60 if quick else 600), sim_depth=40)
    # ---- instantiate
    items = []      # (string, table, kind, expected, meta)
    reps = 1 if quick else 3
    for r in recs:
        for rep in range(reps):
            ats = rot.distinct(r["nat"])
            if len(ats) < r["nat"]:
                continue
            s, exp = gramgen.instantiate(r, ats, rng)
            T = "T1" if rng.random() < 0.15 else "public"
            items.append((s, T, "valid", exp, {"dens": r["dens"], "atoms": ats}))
        if r["mal"] and rng.random() < (0.25 if quick else 1.0):
            ats = rot.distinct(r["nat"])
            for m in r["mal"]:
                toks = [ats[int(t[1:]) - 1].render(rng) if (t.startswith("$") and t[1:].isdigit()) else t for t in m["toks"]]
                items.append(("".join(toks), "public", "mal:" + m["kind"], None, {}))
    # atom-level malformations: every atom kind, inside a small context
    contexts = ["%s", "%s2", "Co%sO3", "(%s)2", "2%s O"]
    nat = 300 if quick else 3000
    for i in range(nat):
        a = rot.next()
        for kind, text in atom_malformations(a, uni, rng):
            c = contexts[(i + len(kind)) % len(contexts)]
            items.append((c % text, "public" if i % 5 else "T1", "mal:" + kind, None, {}))
    # a unit of the mixture notation without its number is not a quantity: "LI" is not a litre of iodine
    for unit in ["kg", "mg", "ug", "ng", "g", "L", "mL", "uL", "nL", "cm", "mm", "um", "nm"]:
        for body in ["I", "Fe", "H2O", "Co2O3@5", " Fe", "(H2O)2", "Fe // 2 g Ni"]:
            items.append((unit + body, "public" if len(body) % 2 else "T1", "mal:unit-without-number", None, {}))
    # single valid atoms: every atom of the rotor pools once (thorough) so that "any element/isotope/ion" is exhaustive
    for kind in ("el", "iso", "ion", "alias", "isoion"):
        pool = uni[kind]
        for a in (pool if not quick else rng.sample(pool, min(len(pool), 600))):
            cnt = rng.choice(["", "2", "0.5"] + (["9007199254740993", "100000000000000001", "602214076000000000000001"] if rng.random() < 0.1 else []))
            s = a.render(rng) + cnt
            items.append((s, "public", "valid", {a.key(): Fraction(cnt) if cnt else Fraction(1)}, {"dens": "", "atoms": [a], "single": True}))
    # a private table T2 whose owner redefined the valid charges (Fe: 2, 3 only; Ne: 1; Na: -1, 2): "the table" is what it
    # defines now.  Each string is asked on T2 and, with the opposite expectation, on the untouched tables.
    F = Fraction
    custom = [("Fe{6+}O3", {(26, 0, 6): F(1), (8, 0, 0): F(3)}, False), ("Fe[56]{6+}", {(26, 56, 6): F(1)}, False),
              ("Fe{3+}2O3", {(26, 0, 3): F(2), (8, 0, 0): F(3)}, True), ("Ne{+}2", {(10, 0, 1): F(2)}, True),
              ("Ne[20]{+}", {(10, 20, 1): F(1)}, True), ("Na{2+}O", {(11, 0, 2): F(1), (8, 0, 0): F(1)}, True),
              ("Na{+}Cl{-}", {(11, 0, 1): F(1), (17, 0, -1): F(1)}, False), ("Na[23]{+}", {(11, 23, 1): F(1)}, False),
              ("Fe{-}", {(26, 0, -1): F(1)}, False)]
    for rep in range(3):            # (repeated: the answer must not depend on what was asked before)
        for s, exp, on_t2 in custom:
            for T in ("T2", "public", "T1"):
                ok = on_t2 if T == "T2" else (not on_t2 or s == "Fe{3+}2O3")
                if ok:
                    items.append((s, T, "valid", exp, {"dens": "", "atoms": []}))
                else:
                    items.append((s, T, "mal:charge-not-defined-by-this-table", None, {}))
    # ---- execute
    nb = 32
    batches = [items[i::nb] for i in range(nb)]
    outs = forkrun.map_fresh("ptv.gramexec", "run_batch",
                             [{"items": [(x[0], x[1]) for x in b], "private": True} for b in batches])
    nvalid = nmal = 0
    for b, (st, res) in zip(batches, outs):
        if st != "ok":
            ctx.error("parse batch failed: " + res[-600:])
            return
        for (s, T, kind, exp, meta), got in zip(b, res):
            ctx.distinct(s)
            if kind == "valid":
                nvalid += 1
                check_valid(ctx, s, T, exp, meta, got)
            else:
                nmal += 1
                if "exc" not in got or got.get("again") == "accepted":
                    ctx.violation({"kind": "parse", "clause": "MalformedMustBeRejected", "malformation": kind[4:],
                                   "string": s, "table": T, "got": got.get("str"), "asked_again": "exc" in got})
    edited_leg(ctx, rng, uni, [x[0] for x in items if x[2] == "valid" and x[1] == "public"], quick)
    ctx.count("valid strings", nvalid)
    ctx.count("malformed strings", nmal)
    ctx.cov["traces_validated_against_impl"] = nvalid + nmal
    ctx.cov["atoms_used"] = len(rot.used)
    for x in items[:4] + items[-4:]:
        ctx.sample({"string": x[0], "table": x[1], "kind": x[2],
                    "expected": None if x[3] is None else dict(("%d-%d-%d" % k, str(v)) for k, v in x[3].items())})
    ctx.cov["rule"] = ("every complete derivation reachable in PTGrammar within the bounds (exhaustive configs) or visited by "
                       "TLC -simulate (deep config) is one test: placeholders are replaced by atoms of the real table "
                       "(rotating through every element, isotope, ion; sampled isotope ions), the string is parsed by "
                       "formula() on the public or a private table and atoms/charge/density are compared with the spec's "
                       "denotation; malformed variants must raise. distinct_nontrivial = distinct strings")
    ctx.cov["exhaustive"] = False


EDIT_TOKENS = ["(", ")", "[", "]", "{", "}", "+", " ", "2", "0", "10", "0.5", ".", "1.", "[2]", "[18]", "[056]", "{2+}", "{-}", "{+}", "{3}", "{+2}",
               "H", "O", "Fe", "Co", "D", "T", "Xx", "Q", "x", "q", "#", "!", "=", ",", "_", "@", "@2", "@1.5n", "@n", "@0", "-", "e3", "{0+}", "[]", "{}",
               # digits that are not ASCII are never part of a number of the grammar (non-ASCII blanks are left out: the
               # documentation does not say which characters are a space)
               "\uff12", "\u0668", "\u0665", "\uff16", "\u00b2", "\u2082"]


def edits(rng, s, n):
    """n random character-level edits with pieces of the token alphabet (insert / delete / replace / duplicate)."""
    for _ in range(n):
        k = rng.random()
        i = rng.randint(0, len(s))
        if k < 0.45:
            s = s[:i] + rng.choice(EDIT_TOKENS) + s[i:]
        elif k < 0.7 and s:
            j = min(len(s), i + rng.randint(1, 3))
            s = s[:i] + s[j:]
        elif k < 0.9 and s:
            j = min(len(s), i + rng.randint(1, 2))
            s = s[:i] + rng.choice(EDIT_TOKENS) + s[j:]
        else:
            j = min(len(s), i + rng.randint(1, 4))
            s = s[:j] + s[i:j] + s[j:]
    return s


def edited_leg(ctx, rng, uni, valid_strings, quick):
    """code -> spec: edited strings are parsed by the code; Trace_Parse decides from the tokens what must happen."""
    from .. import tracecheck
    n = 4000 if quick else 60000
    base = [s for s in valid_strings if len(s) < 60]
    strs = set()
    for i in range(n):
        s = rng.choice(base)
        strs.add(edits(rng, s, rng.choice([0, 1, 1, 2, 3])))
    # character soup over the notation's alphabet and real fragments: the specification's own lexer (PTLex) cuts the
    # characters, so strings that are not edits of anything valid are decided too (most are certainly outside)
    frags = ["H", "He", "O", "Fe", "Na", "Cl", "D", "T", "Si", "U", "n", "h", "X", "Uuo", "2", "3", "10", "0.5", ".5", "1.", "1e3", "0", ".",
             "(", ")", "[2]", "[56]", "[16]", "[", "]", "{2+}", "{-}", "{+}", "{3+}", "{", "}", " ", "+", " + ", "@1.5", "@2n", "@.5i",
             "@0.9", "@7.", "@", "x", "-", ",", "*", "_", "2+", "1/2"]
    for i in range(n // 4):
        strs.add("".join(rng.choice(frags) for _ in range(rng.randint(1, 7))))
    import re
    # outside this leg: prefix routes and mixtures (':', '%', '/'), blanks inside [..] or {..} tags and a leading blank
    # (the documentation is silent about them), and a unit after a number (a mixture quantity: "0.5L0.5Lu" is half a
    # litre of 0.5Lu; no blank or word boundary is needed after the unit, but "0.5Lu" is the element Lu)
    silent = re.compile(r"[\[{][^\]}]*\s|\s[\]}]|^\s|\s$|[0-9.]\s*(?:kg|mg|ug|ng|g|mL|uL|nL|L|cm|mm|um|nm)(?![a-z])")
    def blanks_settled(x):
        # every blank must sit where the documentation speaks about it: between the end of a group
        # (letter, digit, '.', ')', ']', '}', '+') and the start of the next one (capital, digit, '.', '(', '+')
        for m in re.finditer(r"\s+", x):
            if m.start() == 0 or m.end() == len(x):
                return False
            if x[m.start() - 1] not in "ABCDEFGHIJKLMNOPQRSTUVWXYZabcdefghijklmnopqrstuvwxyz0123456789.)]}+" \
                    or x[m.end()] not in "ABCDEFGHIJKLMNOPQRSTUVWXYZ0123456789.(+":
                return False
            if "@" in x[:m.start()]:
                return False          # nothing is said about blanks after the density tag
        return True
    from ..formexec import lex

    def positive_counts(x):
        # the property speaks about positive counts: a count (or density) of zero is outside it ("(X)0.@1n" divides by zero)
        return not any(t["t"] in ("num", "dens") and t["v"]["s"] == 0 for t in lex(x))
    strs = sorted(x for x in strs if ":" not in x and "%" not in x and "/" not in x and not silent.search(x) and blanks_settled(x)
                  and positive_counts(x))
    items = [{"id": "e%d" % i, "s": s} for i, s in enumerate(strs)]
    outs = forkrun.map_fresh("ptv.formexec", "observe_parse", [{"items": items[i::32]} for i in range(32)])
    events = []
    for st, evs in outs:
        if st != "ok":
            ctx.error("observe_parse failed: " + evs[-400:])
            return
        events += evs
    eb, isos = uni["eb"], uni["isos"]
    header = {"symz": dict((v[1], z) for z, v in eb.items() if z >= 1),
              "isos": dict((str(z), isos.get(z, [])) for z in eb), "ions": dict((str(z), list(v[2])) for z, v in eb.items())}
    rejected = tracecheck.validate(ctx, "Trace_Parse", header, events, name="Trace_Parse")
    # the harness's own lexer only filters inputs (positive_counts above); keep it in step with the specification's
    from .. import lextest
    sample = strs[::max(1, len(strs) // 1500)]
    r, bad = lextest.compare(sample)
    ctx.tlc("LexTest (PTLex against the harness's filter lexer)", r)
    ctx.cov["lexer_differential"] = {"strings": len(sample), "disagreements": len(bad), "examples": [b[0] for b in bad[:5]]}
    if not quick:       # ... and on every string of length <= 5 over a 16-character alphabet of the notation
        allstr = lextest.all_strings(5)
        rs, bad = lextest.compare_sharded(allstr)
        for r in rs:
            ctx.tlc("LexTest (all strings of length <= 5)", r)
        ctx.cov["lexer_differential_exhaustive"] = {"strings": len(allstr), "alphabet": lextest.SMALL, "disagreements": len(bad),
                                                    "examples": [b[0] for b in bad[:5]]}
    bys = dict((it["id"], it["s"]) for it in items)
    byev = dict((e["id"], e) for e in events)
    ctx.count("edited strings (code -> spec)", len(events))
    ctx.cov["edited_strings_accepted_by_code"] = sum(1 for e in events if "exc" not in e["res"])
    for i, x in sorted(rejected.items()):
        ctx.violation({"kind": "parse", "clause": x["clause"], "string": bys[i], "table": "public",
                       "got": byev[i]["res"].get("exc", "accepted")})


def check_valid(ctx, s, T, exp, meta, got):
    def bad(clause, **kw):
        rec = {"kind": "parse", "clause": clause, "string": s, "table": T,
               "expected": dict(("%d-%d-%d" % k, float(v)) for k, v in exp.items())}
        rec.update(kw)
        ctx.violation(rec)
    if "exc" in got:
        return bad("ValidStringMustParse", exc=got["exc"])
    g = {}
    for z, A, q, tab, c in got["atoms"]:
        if tab != T:
            return bad("AtomsBelongToTable", got_table=tab)
        g[(z, A, q)] = g.get((z, A, q), 0) + c
    if set(g) != set(exp):
        return bad("AtomsAreDenotation", got=dict(("%d-%d-%d" % k, v) for k, v in g.items()))
    for k, v in exp.items():
        exact = v.denominator == 1 and isinstance(g[k], int)      # whole-number counts are whole numbers, whatever their size
        if (g[k] != v.numerator) if exact else not close(g[k], float(v)):
            return bad("CountsAreDenotation", got=dict(("%d-%d-%d" % k2, v2) for k2, v2 in g.items()))
    charge = sum(float(v) * k[2] for k, v in exp.items())
    if "charge" not in got or abs(got["charge"] - charge) > 1e-9 * max(1, abs(charge)):
        return bad("ChargeIsSumOfIonCharges", got_charge=got.get("charge"), want_charge=charge)
    d = meta.get("dens", "")
    if d:
        kind, val = DENS[d]
        if kind == "i":
            if got["density"] is None or not close(got["density"], val):
                return bad("DensityTag", got_density=got["density"], want=val)
        else:
            if got.get("natural_density") is None or not close(got["natural_density"], val, 1e-10):
                return bad("NaturalDensityTag", got_density=got.get("natural_density"), want=val)
            # '@<d>n': d is the density the compound would have with natural abundances in the same cell
            if got.get("mass_natural") and (got["density"] is None or not close(got["density"], val * got["mass_written"] / got["mass_natural"], 1e-10)):
                return bad("NaturalDensityTagMeansDensity", got_density=got["density"], want=val * got["mass_written"] / got["mass_natural"])
    elif len(exp) > 1 and got["density"] is not None:
        return bad("NoDensityWithoutTag", got_density=got["density"])


def replay(ctx, path):
    import json
    with open(path) as f:
        data = json.load(f)
    items = [(v["string"], v.get("table", "public")) for v in data["violations"] if "string" in v]
    st, res = forkrun.call_fresh("ptv.gramexec", "run_batch", {"items": items, "private": True})
    for it, r in zip(items, res):
        print(it, "->", r)
    return 0
