"""C18: biomolecule sequences are the sum of their residues."""
import os
import random
from .. import forkrun, tlc, tracecheck, rawtables, dec

AA = "ACDEFGHIKLMNPQRSTVWY"
AA_ALL = AA + "BJZX-"
NA_ALL = "ACGTURYKMSWBDHVNX-"


def run(ctx):
    quick = ctx.tier == "quick"
    rng = random.Random(ctx.seed + 18)
    # ---- FASTA reader: TLC explores the line-reader machine; every explored file is read by the real code
    res = tlc.run("MC_Fasta", os.path.join(tlc.VERIF, "mc", "MC_Fasta.cfg"), workers=8, timeout=600)
    ctx.tlc("MC_Fasta exhaustive (files of <= 5 lines over 5 line kinds)", res)
    if res.rc != 0:
        ctx.error("MC_Fasta: " + tlc.brief(res.out))
        return
    files = res.printed()
    if quick:
        files = rng.sample(files, 1200)
    exts = [(".faa", "aa"), (".fna", "dna"), (".ffn", "dna"), (".frn", "rna"), (".txt", "aa"), (".fasta", "aa")]
    fitems = []
    exotic = ["\x0c", "\x1c", "\x85", "\u2028", "\x0b", "\x1d"]
    for i, f in enumerate(files):
        ch = exotic[i % len(exotic)]          # characters str.splitlines() breaks at but file iteration does not
        f = {"lines": [x.replace("<FF>", ch) for x in f["lines"]],
             "records": [{"name": r["name"].replace("<FF>", ch), "seq": r["seq"]} for r in f["records"]]}
        ext, typ = exts[i % len(exts)]
        # (a sequence line with a '>' in it is read as text by the reader but is not a code string: no Sequence from it)
        load = i % 5 == 0 and len(f["records"]) > 0 and typ == "aa" and not any(">" in x for r in f["records"] for x in r["seq"])
        fitems.append({"id": str(i), "lines": f["lines"], "ext": ext, "type": typ, "load": load, "want": f["records"]})
    # files with valid sequences per type for the extension -> type mapping
    for j, (ext, typ) in enumerate(exts * 3):
        alphabet = AA_ALL if typ == "aa" else NA_ALL
        lines = []
        for r in range(rng.randint(1, 3)):
            lines.append(">rec%d some description" % r)
            for _ in range(rng.randint(0, 3)):
                lines.append("".join(rng.choice(alphabet) for _ in range(rng.randint(1, 30))) + rng.choice(["", " ", "  "]))
        want = []
        cur = None
        for ln in lines:
            if ln.startswith(">"):
                cur = {"name": ln.rstrip(), "seq": []}
                want.append(cur)
            else:
                cur["seq"].append(ln.rstrip())
        fitems.append({"id": "x%d" % j, "lines": lines, "ext": ext, "type": typ, "load": True, "want": want})
    nb = 16
    outs = forkrun.map_fresh("ptv.fastaexec", "read_files", [{"items": fitems[i::nb]} for i in range(nb)])
    nfiles = 0
    for b, (st, recs) in zip([fitems[i::nb] for i in range(nb)], outs):
        if st != "ok":
            ctx.error("reader child failed: " + recs[-500:])
            return
        for it, r in zip(b, recs):
            nfiles += 1
            ctx.distinct("file:" + "|".join(it["lines"]))
            want = [[w["name"], "".join(w["seq"])] for w in it["want"]]
            if r.get("records") != want:
                ctx.violation({"kind": "fasta-reader", "clause": "RecordsAreHeadersWithFollowingLines", "lines": it["lines"],
                               "got": r.get("records", r.get("exc")), "want": want})
            if it["load"]:
                if "load_exc" in r:
                    ctx.violation({"kind": "fasta-reader", "clause": "LoadComputes", "lines": it["lines"], "ext": it["ext"], "exc": r["load_exc"]})
                elif r["loadall"] != r["expect"] or r["load"] != r["expect"][0]:
                    ctx.violation({"kind": "fasta-reader", "clause": "TypeFromExtension", "lines": it["lines"], "ext": it["ext"], "type": it["type"]})
    ctx.cov["traces_validated_against_impl"] += nfiles
    ctx.count("fasta files read", nfiles)
    # ---- sums over residues, averages, permutations: trace validation
    items = []

    def add(t):
        t["id"] = "t%d" % len(items)
        items.append(t)
    for typ, alphabet in (("aa", AA_ALL), ("dna", NA_ALL), ("rna", NA_ALL)):
        for c in alphabet:
            add({"kind": "seq", "type": typ, "s": c, "prefix": True})
            add({"kind": "avg", "type": typ, "code": c})
        pairs = [a + b for a in alphabet for b in alphabet]
        for s in (pairs if not quick else rng.sample(pairs, 60)):
            add({"kind": "seq", "type": typ, "s": s, "prefix": rng.random() < 0.3})
        add({"kind": "seq", "type": typ, "s": "", "prefix": False})
        for i in range(60 if quick else 600):
            n = rng.choice([3, 5, 8, 20, 50, 200, 1000, 3000] if not quick else [3, 5, 8, 20, 50, 300])
            s = "".join(rng.choice(alphabet) for _ in range(n))
            form = i % 4
            if form == 1:
                s = " ".join(s[j:j + 10] for j in range(0, len(s), 10))
            elif form == 2:
                cut = rng.randint(0, len(s))
                s = s[:cut] + "*" + s[cut:]
            elif form == 3:
                s = s + " * " + s
            add({"kind": "seq", "type": typ, "s": s, "prefix": (i % 3 == 0 and n <= 200)})
            base = "".join(rng.choice(alphabet) for _ in range(rng.choice([2, 3, 6, 12, 40])))
            sh = list(base)
            rng.shuffle(sh)
            add({"kind": "perm", "type": typ, "a": base, "b": "".join(sh)})
    outs = forkrun.map_fresh("ptv.fastaexec", "observe", [{"items": items[i::32]} for i in range(32)])
    events = []
    task = dict((t["id"], t) for t in items)
    for st, evs in outs:
        if st != "ok":
            ctx.error("observe child failed: " + evs[-500:])
            return
        for e in evs:
            if e["ev"] == "harness_exc":
                ctx.violation({"kind": "fasta", "clause": "CallRaised", "task": task.get(e["id"]), "exc": e["exc"]})
            else:
                events.append(e)
                ctx.distinct(e["id"])
    c = rawtables.module_constants("constants")
    rejected = tracecheck.validate(ctx, "Trace_Fasta", {"avogadro": dec.to_dec(c["avogadro_number"])}, events, name="Trace_Fasta", heap="4g")
    ctx.count("sequence / average / permutation events", len(events))
    for i, x in sorted(rejected.items()):
        t = task.get(i)
        if t and "s" in t and len(t["s"]) > 80:
            t = dict(t, s=t["s"][:80] + "...")
        ctx.violation({"kind": "fasta", "clause": x["clause"], "id": i, "task": t})
    for t in items[:3] + items[-2:]:
        ctx.sample(t if len(str(t)) < 300 else {"id": t["id"], "kind": t["kind"]})
    ctx.cov["rule"] = ("reader: every file explored by TLC in PTFasta (<= 5 lines over header / '>' only / sequence / sequence with spaces and '*' / "
                       "blank) is written to disk and read by read_fasta, Sequence.load and loadall under every extension; sums: every single code "
                       "and (sampled in quick) every pair of codes of the three alphabets, random sequences to length 3000 with spaces and '*', the "
                       "aa:/dna:/rna: prefix route, every ambiguity code against the average of the codes it stands for, shuffled multisets")


def replay(ctx, path):
    run(ctx)
    return ctx.finish()
