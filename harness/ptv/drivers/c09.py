"""C09: lazy loading is invisible (public-table histories, and histories whose first touch of a group is a private table's init)."""
from .. import lazydrv

def run(ctx):
    quick = ctx.tier == "quick"
    configs = [([g], [], 0, 0) for g in lazydrv.ALL_GROUPS]
    configs += [(["cov", "emis"], [], 0, 0), (["neut", "act"], [], 0, 0)]
    lazydrv.load_fix_flags()
    sim = lazydrv.simulate_histories(ctx, [], 10, 4 if quick else 60, ctx.seed + 9)
    import random
    random.Random(ctx.seed).shuffle(sim)
    lazydrv.process(ctx, configs, quick, only_private=False, extra_histories=sim[:(60 if quick else 2000)],
                    always=lazydrv.private_first_touch(random.Random(ctx.seed + 3)))

def replay(ctx, path):
    return lazydrv.replay(ctx, path)
