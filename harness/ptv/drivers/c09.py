"""C09: lazy loading is invisible (public-table histories only)."""
from .. import lazydrv

def run(ctx):
    quick = ctx.tier == "quick"
    configs = [([g], [], 0, 0) for g in lazydrv.ALL_GROUPS]
    configs += [(["cov", "emis"], [], 0, 0), (["neut", "act"], [], 0, 0)]
    lazydrv.process(ctx, configs, quick, only_private=False)

def replay(ctx, path):
    return lazydrv.replay(ctx, path)
