"""C11: mixtures keep the requested mass or volume proportions and a consistent density."""
import random
from .. import forkrun, tracecheck

COMPOUNDS = ["H2O@1", "NaCl@2.16", "D2O@1n", "Fe2O3@5.24", "C12H22O11@1.59", "SiO2@2.2", "Au", "Co", "Si", "Cr", "Fe", "Ni",
             "CaCO3", "C2H6O", "Ca{2+}Cl{-}2@2.15", "Fe[56]2O3@5", "H2O", "Ti", "Al2O3@3.95", "2H2O@1", "(H2O)10@1",
             "WC@15.6", "W", "V2O5@3.36", "V", "Mo", "Mg",
             "2Fe", "(Ni)2", "FeFe", "3Si2"]            # one element written with a count, a group, twice: it still has the element's density
WITH_DENS = [c for c in COMPOUNDS if "@" in c or c in ("Au", "Co", "Si", "Cr", "Fe", "Ni", "Ti", "W", "V", "Mo", "Mg", "2Fe", "(Ni)2", "FeFe", "3Si2")]
# the same composition with another density (ice and water, quartz and silica glass, ...): two different materials
TWINS = {"H2O@1": "H2O@0.92", "SiO2@2.2": "SiO2@2.65", "D2O@1n": "D2O@1.0", "Fe2O3@5.24": "Fe2O3@4.9", "NaCl@2.16": "NaCl@1.9",
         "WC@15.6": "WC@14", "Al2O3@3.95": "Al2O3@3.6", "Si": "Si@2.0", "Fe": "Fe@7.0", "C12H22O11@1.59": "C12H22O11@1.2",
         "Au": "Au@17", "H2O": "H2O@1"}
WKW = ["wt%", "%wt", "w%", "%w", "weight%", "%weight", "mass%", "%mass", "m%", "%m"]
VKW = ["vol%", "%vol", "v%", "%v", "volume%", "%volume"]
MASSU = ["kg", "g", "mg", "ug", "ng"]
VOLU = ["L", "mL", "uL", "nL"]
LENU = ["cm", "mm", "um", "nm"]
QS = ["1", "2", "10", "0.5", "5", "50", "0.01", "1000", "3.", ".25", "12"]


def qv(s):
    return float(s)


def percent_spec(rng, form, n, pool, over=False):
    parts = []
    budget = 100.0
    for i in range(n - 1):
        if over:
            qs = rng.choice(["60", "70", "99"])
        else:
            qs = rng.choice(["1", "5", "10", "20", "33", "0.5", "2.5", "0.001", "45"])
            if qv(qs) >= budget:
                qs = "%g" % (budget / 4)
        budget -= qv(qs)
        kw = rng.choice(WKW if form == "wt%" else VKW) if (i == 0 or rng.random() < 0.3) else "%"
        parts.append({"f": rng.choice(pool), "qs": qs, "q": qv(qs), "kw": kw})
    parts.append({"f": rng.choice(pool)})
    if n >= 3 and not over and rng.random() < 0.12:
        k = rng.randrange(n - 1)              # a percentage of zero, written as a decimal
        budget += parts[k]["q"]
        parts[k]["qs"], parts[k]["q"] = rng.choice(ZEROS), 0.0
    shape = rng.random()
    if not over and n == 2 and shape < 0.3:
        # very unequal: the remainder left to the last component is tiny but not nothing
        qs = rng.choice(["99.9999995", "99.99999", "99.999", "99.9999999"])
        parts[0].update(qs=qs, q=qv(qs))
    elif not over and shape < 0.2:
        # the percentages are complete: the last component gets exactly nothing and vanishes, whatever it is
        rest = 100.0 - sum(p["q"] for p in parts[:-1])
        if n >= 3 and rest == int(rest) and rest > 0:
            parts[-2].update(qs="%d" % (parts[-2]["q"] + rest) if parts[-2]["q"] == int(parts[-2]["q"]) else parts[-2]["qs"])
            parts[-2]["q"] = qv(parts[-2]["qs"])
            if sum(p["q"] for p in parts[:-1]) == 100.0:
                parts[-1]["f"] = rng.choice(["H2O", "CaCO3", "C2H6O", "Si"])
    return {"form": form, "parts": parts, "sep": rng.choice([" // ", "//", " //", "// "])}


def abs_spec(rng, n, allow_vol=True):
    parts = []
    for i in range(n):
        f = rng.choice(COMPOUNDS)
        unit = rng.choice(MASSU + (VOLU if allow_vol else []))
        if unit in VOLU and rng.random() < 0.9:
            f = rng.choice(WITH_DENS)
        qs = rng.choice(QS)
        parts.append({"f": f, "qs": qs, "q": qv(qs), "unit": unit, "gap": rng.choice(["", " "])})
    zero_one(rng, parts)
    return {"form": "abs", "parts": parts}


ZEROS = ["0.0", "0.", ".0", "0.00"]


def zero_one(rng, parts):
    """now and then one component (never the only one) is given a quantity of zero, written as a decimal: it vanishes.
    (A zero *volume* of a compound without density is left out: its mass is not defined by the notation.)"""
    if len(parts) >= 2 and rng.random() < 0.15:
        p = rng.choice(parts)
        if p.get("unit") in VOLU and p["f"] not in WITH_DENS:
            return
        p["qs"], p["q"] = rng.choice(ZEROS), 0.0


def layer_spec(rng, n):
    parts = [{"f": rng.choice(WITH_DENS), "qs": q, "q": qv(q), "unit": rng.choice(LENU), "gap": rng.choice([" ", ""])}
             for q in [rng.choice(QS) for _ in range(n)]]
    zero_one(rng, parts)
    return {"form": "layer", "parts": parts}


def tasks(ctx, quick):
    rng = random.Random(ctx.seed + 11)
    items = []

    def add(t):
        t["id"] = "t%d" % len(items)
        items.append(t)
    for j in range(24 if quick else 240):
        a, b = rng.sample(WITH_DENS, 2)
        add({"kind": "mix", "mode": "weight", "comps": [[["str", a], 1], [["str", b], 1]],
             "near_integer": [rng.choice([1, 2, 3, 5, 12]), rng.choice([4e-7, -4e-7, 2e-7, 9e-7, -1e-7, 3e-8])]})
    n = 250 if quick else 3000
    quantities = [1, 1, 2, 10, 0.5, 1000, 1e-3, 1e-6, 0, 37.5, 1e5]
    for i in range(n):
        k = rng.randint(1, 4)
        mode = "weight" if i % 2 else "volume"
        pool = COMPOUNDS if (mode == "weight" or i % 10 == 0) else WITH_DENS
        comps = []
        for _ in range(k):
            c = rng.choice(pool)
            e = ["str", c]
            if rng.random() < 0.15:
                e = ["mixw", [[["str", rng.choice(WITH_DENS)], 1], [["str", rng.choice(WITH_DENS)], rng.choice([1, 9, 0.1])]]]   # itself a mixture
            comps.append([e, rng.choice(quantities)])
        if k >= 2 and i % 6 == 1 and comps[0][0][0] == "str" and comps[0][0][1] in TWINS:
            comps[-1][0] = ["str", TWINS[comps[0][0][1]]]       # the first material again, with another density
        if i % 5 == 2:      # a component of quantity zero vanishes whether or not its density is known
            comps.insert(rng.randrange(len(comps) + 1), [["str", rng.choice(["H2O", "CaCO3", "C2H6O", "Fe2O3@5.24"])], 0])
        t = {"kind": "mix", "mode": mode, "comps": comps}
        if i % 3 == 1 and all(e[0] == "str" for e, q in comps):
            t["strings"] = True
            t["T"] = rng.choice(["T2", "T2", "T1", None])
        if i % 17 == 0:
            t["density"] = 3.21
        add(t)
        if i % 4 == 0 and all("@" in c[0][1] or c[0][0] != "str" or c[0][1] in WITH_DENS for c in comps if c[0][0] == "str"):
            # independence of how each component's formula unit is scaled
            scaled = [[["mul", rng.choice([2, 0.5, 10]), e], q] for e, q in comps]
            add({"kind": "same", "why": "formula-unit scaling", "a": ["call", mode, comps], "b": ["call", mode, scaled]})
    m = 250 if quick else 3000
    for i in range(m):
        form = ["wt%", "vol%", "abs", "layer"][i % 4]
        nparts = rng.randint(2, 4)
        if form == "wt%":
            spec = percent_spec(rng, form, nparts, COMPOUNDS, over=(i % 40 == 0))
        elif form == "vol%":
            spec = percent_spec(rng, form, nparts, WITH_DENS if i % 20 else COMPOUNDS, over=(i % 44 == 1))
        elif form == "abs":
            spec = abs_spec(rng, nparts)
        else:
            spec = layer_spec(rng, nparts)
        if i % 7 == 3 and spec["parts"][0]["f"] in TWINS:
            spec["parts"][-1]["f"] = TWINS[spec["parts"][0]["f"]]   # the first material again, with another density
        r = rng.random()
        if r < 0.25 and form in ("wt%", "vol%"):
            # nested mixture as a component, possibly with its own density tag
            sub = percent_spec(rng, rng.choice(["wt%", "vol%"]), 2, WITH_DENS)
            add({"kind": "mixstr", "spec": sub})          # the group is itself a mixture: checked on its own as well
            spec["parts"][rng.randrange(len(spec["parts"]))] = {"sub": sub, "qs": "20", "q": 20.0, "kw": spec["parts"][0].get("kw", "%") if True else "%",
                                                                "dens": rng.choice(["", "@1.1", "@2n", "@1.3i", "@0.9n"])}
            spec["parts"][0].setdefault("kw", rng.choice(WKW if form == "wt%" else VKW))
            if "qs" not in spec["parts"][0]:
                spec["parts"][0]["qs"], spec["parts"][0]["q"] = "20", 20.0
            if spec["parts"][0].get("kw") == "%":
                spec["parts"][0]["kw"] = rng.choice(WKW if form == "wt%" else VKW)
            last = spec["parts"][-1]
            for kk in ("qs", "q", "kw"):
                last.pop(kk, None)
        elif r < 0.3 and form == "abs":
            sub = abs_spec(rng, 2, allow_vol=False)
            add({"kind": "mixstr", "spec": sub})
            spec["parts"][rng.randrange(len(spec["parts"]))] = {"sub": sub, "rep": rng.choice([1, 2, 3, 0.5])}
        elif r < 0.45 and form in ("abs", "wt%"):
            # an amount (or a percentage) of a parenthesised mixture given by absolute amounts, volumes included
            sub = abs_spec(rng, 2)
            if i % 2:
                sub["parts"][0].update(unit=rng.choice(VOLU), f=rng.choice(WITH_DENS))
            for sp in sub["parts"]:         # (a volume of something without density has no mass: checked on its own, not inside a group)
                if sp["unit"] in VOLU and sp["f"] not in WITH_DENS:
                    sp["f"] = rng.choice(WITH_DENS)
            add({"kind": "mixstr", "spec": sub})
            k = rng.randrange(len(spec["parts"]) - (1 if form == "wt%" else 0))
            if form == "abs":
                q = rng.choice(QS)
                spec["parts"][k] = {"sub": sub, "qs": q, "q": qv(q), "unit": rng.choice(MASSU), "gap": rng.choice(["", " "])}
            else:
                old = spec["parts"][k]
                spec["parts"][k] = {"sub": sub, "qs": old.get("qs", "20"), "q": old.get("q", 20.0), "kw": old.get("kw", "wt%"), "dens": ""}
        elif r < 0.3 and form == "layer":
            sub = layer_spec(rng, 2)
            add({"kind": "mixstr", "spec": sub})
            spec["parts"][rng.randrange(len(spec["parts"]))] = {"sub": sub, "rep": rng.choice([1, 2, 3, 10])}
        add({"kind": "mixstr", "spec": spec})
        if i % 5 == 3:
            items[-1]["kw"] = rng.choice([{"name": "sample 7"}, {"name": "x", "table": None}])
        if form in ("wt%", "vol%") and r >= 0.45 and i % 3 == 0 and not (i % 40 == 0 or i % 44 == 1):
            # the string means the same as the call
            qs = [p["q"] for p in spec["parts"][:-1]]
            qs.append(100 - sum(qs))
            comps = [[["str", p["f"]], q] for p, q in zip(spec["parts"], qs)]
            add({"kind": "same", "why": "string = call", "a": ["render", spec], "b": ["call", "weight" if form == "wt%" else "volume", comps]})
    # unit spellings: the same amounts written with different units
    for i in range(40 if quick else 400):
        a, b = rng.choice(WITH_DENS), rng.choice(WITH_DENS)
        add({"kind": "same", "why": "unit spelling", "a": ["string", "1000 mg %s // 1 g %s" % (a, b)], "b": ["string", "1 g %s // 0.001 kg %s" % (a, b)]})
        add({"kind": "same", "why": "unit spelling", "a": ["string", "2 mL %s // 3 uL %s" % (a, b)], "b": ["string", "0.002 L %s // 3000 nL %s" % (a, b)]})
        add({"kind": "same", "why": "unit spelling", "a": ["string", "1 um %s // 5 nm %s" % (a, b)], "b": ["string", "0.001 mm %s // 0.0000005 cm %s" % (a, b)]})
        add({"kind": "same", "why": "layers = volume fractions", "a": ["string", "3 nm %s // 1 nm %s" % (a, b)], "b": ["string", "75 vol%% %s // %s" % (a, b)]})
    return items


def run_items(ctx, items, label):
    nb = 32
    outs = forkrun.map_fresh("ptv.mixexec", "observe", [{"items": items[i::nb]} for i in range(nb)])
    events = []
    task = dict((t["id"], t) for t in items)
    for st, evs in outs:
        if st != "ok":
            ctx.error("observe child failed: " + evs[-600:])
            return
        for e in evs:
            if e["ev"] == "harness_exc":
                ctx.violation({"kind": label, "clause": "HarnessComponentFailed", "task": task.get(e["id"]), "exc": e["exc"], "string": e.get("string")})
            else:
                events.append(e)
                ctx.distinct(e.get("string") or e["id"])
    rejected = tracecheck.validate(ctx, "Trace_Mix", {"hdr": 1}, events, name="Trace_Mix")
    ctx.count("events", len(events))
    strings = dict((e["id"], e.get("string")) for e in events)
    for i, x in sorted(rejected.items()):
        ctx.violation({"kind": label, "clause": x["clause"], "id": i, "string": strings.get(i), "task": task.get(i)})
    for e in events[:2] + events[-3:]:
        ctx.sample({"id": e["id"], "ev": e["ev"], "string": e.get("string"), "task": task.get(e["id"])})


def run(ctx):
    quick = ctx.tier == "quick"
    run_items(ctx, tasks(ctx, quick), "mix")
    ctx.cov["rule"] = ("call forms mix_by_weight / mix_by_volume with 1-4 components (with / without density, themselves mixtures, zero and very "
                       "unequal quantities, given density) and string forms (all wt%/vol% keyword spellings, 9 mass/volume and 4 length units, "
                       "nested and repeated groups, density tags on groups, percentages above 100); TLC checks proportions atom by atom, density "
                       "= mass/volume, total_mass / thickness, and the equivalences call = string, unit spellings, formula-unit scaling")


def replay(ctx, path):
    import json
    with open(path) as f:
        data = json.load(f)
    run_items(ctx, [v["task"] for v in data["violations"] if v.get("task")], "mix")
    return ctx.finish()
