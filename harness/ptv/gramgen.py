"""TLC as generator of formula derivations (PTGrammar / MC_Grammar) + instantiation with real atoms."""
from fractions import Fraction
from . import tlc

CFG = """SPECIFICATION GSpec
CONSTANTS
  MaxEls = %(els)d
  MaxItems = %(items)d
  MaxDepth = %(depth)d
  MaxAtoms = %(atoms)d
  CountToks = %(counts)s
  Seps = %(seps)s
  DensToks = %(dens)s
INVARIANT Emit
INVARIANT CountsDistribute
INVARIANT RepeatsAdd
INVARIANT NonEmptyDenotation
INVARIANT RoundTrip
INVARIANT MalformedRefused
"""


def sset(xs):
    return "{" + ", ".join('"%s"' % x for x in xs) + "}"


def generate(ctx, name, els, items, depth, atoms, counts, seps, dens, simulate=None, sim_depth=30, timeout=900):
    cfg = CFG % dict(els=els, items=items, depth=depth, atoms=atoms, counts=sset(counts), seps=sset(seps), dens=sset(dens))
    if simulate:
        res = tlc.run("MC_GrammarRT", cfg, workers=16, simulate="num=%d" % simulate, depth=sim_depth, seed=ctx.seed + 1,
                      timeout=timeout)
    else:
        res = tlc.run("MC_GrammarRT", cfg, workers=16, timeout=timeout)
    if res.rc != 0:
        raise tlc.TLCError("MC_GrammarRT %s failed (generator PTGrammar and recogniser PTLex + PTParse disagree, or TLC failed): %s" % (name, tlc.brief(res.out)))
    seen = set()
    out = []
    for r in res.printed():
        k = "\x00".join(r["toks"])
        if k in seen:
            continue
        seen.add(k)
        out.append(r)
    if simulate:
        res.distinct = len(out)     # simulation mode: distinct complete derivations visited
    ctx.tlc("MC_GrammarRT (generator + round trip through PTLex / PTParse) " + name + (" (-simulate, %d behaviours)" % res.sim_traces if simulate else " (exhaustive)"), res)
    return out


def instantiate(rec, atoms, rng):
    """Substitute concrete atoms for the placeholders: returns (string, expected {key: Fraction})."""
    rendered = {}
    toks = []
    for t in rec["toks"]:
        if t.startswith("$") and t[1:].isdigit():
            i = int(t[1:])
            toks.append(atoms[i - 1].render(rng))
        else:
            toks.append(t)
    exp = {}
    for i, (n, e) in enumerate(rec["bag"]):
        if n == 0:
            continue
        k = atoms[i].key()
        exp[k] = exp.get(k, Fraction(0)) + Fraction(n, 2 ** e)
    return "".join(toks), exp
