"""Shared driver for C09 (lazy loading invisible) and C10 (private tables isolated).

1. TLC explores PTLazy per configuration (MC_Lazy emits the graph).
2. Every transition of every graph is replayed in forked fresh interpreters of the
   real code (ptv.lazyexec), recording outcome + alpha(real) per step and the served
   values at the end.
3. TLC validates every recorded history against PTLazy (conformance) and against the
   requirement PTServe (Trace_Lazy.tla).  Only requirement failures are violations;
   conformance failures are reported as model drift.
"""
import json
import os
import random
import shutil
import tempfile
from concurrent.futures import ThreadPoolExecutor

from . import tlc, forkrun, lazyexec

ALL_GROUPS = ["cov", "cryst", "neut", "act", "xray", "emis", "mag"]

# behaviour flags of the model = state of the repaired code (see known_findings.json "fixed" entries)
FIX = {"FixSetter": "FALSE", "FixEmis": "FALSE", "FixNsfPriv": "FALSE", "FixCSCopy": "FALSE", "FixSpin": "FALSE"}


def load_fix_flags():
    p = os.path.join(tlc.VERIF, "mc", "lazy_flags.json")
    if os.path.exists(p):
        with open(p) as f:
            FIX.update(json.load(f))


def cfg(groups, priv, max_asg=1, max_mut=1, extra=""):
    def sset(xs):
        return "{" + ", ".join('"%s"' % x for x in xs) + "}"
    lines = ["CONSTANTS", "  Groups = " + sset(groups), "  PrivTables = " + sset(priv),
             "  MaxAsg = %d" % max_asg, "  MaxMut = %d" % max_mut]
    lines += ["  %s = %s" % kv for kv in sorted(FIX.items())]
    return "\n".join(lines) + "\n" + extra


def canon(x):
    return json.dumps(x, sort_keys=True)


def norm_state(s):
    return canon({"cls": sorted(map(tuple, s["cls"])), "inst": sorted(map(tuple, s["inst"])),
                  "asg": sorted(map(tuple, s["asg"])), "tp": dict((k, sorted(v)) for k, v in s["tp"].items()),
                  "tabs": sorted(s["tabs"]), "mut": sorted(canon(m) for m in s["mut"]), "det": sorted(s.get("det", []))})


def explore(groups, priv, max_asg=1, max_mut=1, timeout=900):
    """Run MC_Lazy; return (result, graph) where graph = {state_key: {"moves":[(ev, key)], "loops":[ev], "bad":..}}."""
    res = tlc.run("MC_Lazy", "SPECIFICATION Spec\nINVARIANT Emit\n" + cfg(groups, priv, max_asg, max_mut),
                  workers=1, timeout=timeout)
    if res.rc != 0:
        raise tlc.TLCError("MC_Lazy failed: " + tlc.brief(res.out))
    graph = {}
    init = None
    for rec in res.printed():
        k = norm_state(rec["s"])
        if init is None:
            init = k
        graph[k] = {"moves": [(m["e"], norm_state(m["t"])) for m in sorted(rec["moves"], key=lambda m: canon(m["e"]))],
                    "loops": sorted(rec["loops"], key=canon),
                    "bad": rec["bad"], "shared": rec["shared"], "fresh": rec["fresh"]}
    return res, graph, init


def simulate_histories(ctx, priv, maxlen, num, seed):
    """Random histories over all seven groups from TLC -simulate (MC_LazySim)."""
    c = ("SPECIFICATION SSpec\nINVARIANT EmitHist\n" + cfg(ALL_GROUPS, priv, 1, 1) + "  MaxLen = %d\n" % maxlen)
    res = tlc.run("MC_LazySim", c, workers=16, simulate="num=%d" % num, depth=maxlen + 2, seed=seed, timeout=900)
    if res.rc != 0:
        raise tlc.TLCError("MC_LazySim failed: " + tlc.brief(res.out))
    hs = {}
    for r in res.printed():
        hs[canon(r["hist"])] = r["hist"]
    res.distinct = len(hs)
    ctx.tlc("MC_LazySim all groups priv=%s (-simulate, %d behaviours of length %d)" % (",".join(priv) or "-", res.sim_traces, maxlen), res)
    return list(hs.values())


def histories_from_graph(graph, init, rng, quick, max_loops=40):
    """One history per non-loop edge (shortest prefix + edge) and one per node (prefix + its self-loop events)."""
    path = {init: []}
    order = [init]
    i = 0
    while i < len(order):
        s = order[i]
        i += 1
        for ev, t in graph[s]["moves"]:
            if t not in path and t in graph:
                path[t] = path[s] + [ev]
                order.append(t)
    hs = []
    for s in order:
        loops = list(graph[s]["loops"])
        if quick and len(loops) > max_loops:
            loops = rng.sample(loops, max_loops)
        if loops:
            hs.append(path[s] + loops)
        for ev, t in graph[s]["moves"]:
            if path.get(t) == path[s] + [ev] and (graph[t]["loops"] or graph[t]["moves"]):
                continue  # tree edge: covered as a prefix of the target's own histories
            hs.append(path[s] + [ev])
    return hs


def run_histories(hs, heap_for=()):
    base = {"full": True, "heap": False, "alpha": True, "rep": True, "digest": True}
    withheap = dict(base, heap=True)
    heap_keys = set(canon(h) for h in heap_for)
    out = forkrun.map_fresh("ptv.forkrun", "_run_history",
                            [(h, withheap if canon(h) in heap_keys else base) for h in hs])
    return out


def private_scenarios(rng, n, two=True):
    """Hand-shaped C10 histories beyond the model graph: full private initialisation in random
    orders interleaved with public reads, then parse / pickle / heap-identity observations."""
    hs = []
    reps = {"cov": ("eD", "cr"), "cryst": ("eD", "cs"), "neut": ("eD", "nt"), "act": ("iD", "na"),
            "xray": ("ionD", "xr"), "emis": ("eD", "ka"), "mag": ("eD", "mf")}
    for i in range(n):
        tabs = ["T1", "T2"] if (two and i % 2) else ["T1"]
        evs = [{"op": "create", "T": T} for T in tabs]
        todo = [{"op": "init", "g": g, "T": T} for T in tabs for g in ALL_GROUPS]
        pub = [{"op": "read", "T": "pub", "a": reps[g][0], "p": reps[g][1]} for g in rng.sample(ALL_GROUPS, rng.randint(0, 4))]
        mix = todo + pub
        rng.shuffle(mix)
        evs += mix
        T = rng.choice(tabs)
        evs.append({"op": "parse", "T": T})
        for a in ("eD", "iD", "ionD", "iion", "e0"):
            evs.append({"op": "pickle", "T": T, "a": a})
        how = ["after-refused-duplicate", "orphans", "bare"][i % 3]
        evs.append({"op": "pickle", "T": T if how != "after-refused-duplicate" else rng.choice(tabs + ["pub"]), "a": "iion", "how": how})
        if how == "after-refused-duplicate":
            evs.append({"op": "pickle", "T": T, "a": "ionD"})
        if i % 2 == 0:
            evs.append({"op": "tcalc", "T": T})
            for c in ("d2o_match", "neutron_sld", "xray_sld", "composite"):
                evs.append({"op": "calc", "c": c})
        if rng.random() < 0.7:
            g = rng.choice(["cryst", "mag", "act", "neut", "xray"])
            a, p = reps[g]
            evs.append({"op": "mutate", "T": T, "a": a if g != "xray" else "eD", "p": p})
            other = [x for x in tabs + ["pub"] if x != T]
            for o in other:
                evs.append({"op": "read", "T": o, "a": a, "p": p})
        hs.append(evs)
    return hs


def private_first_touch(rng):
    """C09 histories in which the first touch of a lazy group in the process is the explicit initialisation of a
    *private* table (as test/test_private.py does, but first): the public table must afterwards serve what the
    canonical order serves, through every kind of object."""
    hs = []
    reps = {"cov": "cr", "cryst": "cs", "neut": "nt", "act": "na", "xray": "xr", "emis": "ka", "mag": "mf"}
    for g in ALL_GROUPS:
        for k in range(2):
            evs = [{"op": "create", "T": "T1"}]
            if k:
                evs += [{"op": "init", "g": x, "T": "T1"} for x in rng.sample(ALL_GROUPS, 2) if x != g]
            evs.append({"op": "init", "g": g, "T": "T1"})
            objs = ["eD", "iD", "ionD", "e0"]
            rng.shuffle(objs)
            for a in objs[:3 if k else 2]:
                evs.append({"op": "read", "T": "pub", "a": a, "p": reps[g]})
            evs.append({"op": "calc", "c": rng.choice(["neutron_sld", "xray_sld", "composite", "d2o_match"])})
            if k:
                evs.append({"op": "init", "g": g, "T": "pub"})
                evs.append({"op": "read", "T": "pub", "a": "eD", "p": reps[g]})
            hs.append(evs)
    return hs


def canonical_record():
    h = lazyexec.canonical_history()
    calcs = ["neutron_sld", "atom_sld", "xray_sld", "f0", "volume", "activation", "activation_iaea", "d2o_match", "list",
             "composite", "magff", "emission_table"]
    hist = h + [{"op": "calc", "c": c} for c in calcs]
    st, res = forkrun.call_fresh("ptv.forkrun", "_run_history", (hist, {"full": True, "heap": False, "detail": False}))
    if st != "ok":
        raise RuntimeError("canonical child failed: " + res)
    rec = {"kind": "canon", "rep": res["final"]["rep"]["pub"], "digest": res["final"]["digest"]["pub"],
           "calc": dict((c, res["steps"][len(h) + i]["out"]) for i, c in enumerate(calcs))}
    return rec


def validate(canon_rec, traces, nshards=16, timeout=1800):
    """traces: list of {"tid","events","steps","final"}; returns {tid: verdict}, TLC stats list."""
    scratch = tempfile.mkdtemp(prefix="ptv-lazytrace-")
    try:
        nshards = max(1, min(nshards, len(traces) // 8 or 1))
        shards = [traces[i::nshards] for i in range(nshards)]
        paths = []
        for i, sh in enumerate(shards):
            p = os.path.join(scratch, "trace%d.ndjson" % i)
            with open(p, "w") as f:
                f.write(json.dumps(canon_rec) + "\n")
                for t in sh:
                    t = dict(t)
                    t["kind"] = "hist"
                    f.write(json.dumps(t) + "\n")
            paths.append(p)
        c = "SPECIFICATION TraceSpec\nPOSTCONDITION Done\n" + cfg(ALL_GROUPS, ["T1", "T2"], 99, 99)

        def one(p):
            return tlc.run("Trace_Lazy", c, workers=1, env={"TRACE_FILE": p}, timeout=timeout)
        with ThreadPoolExecutor(max_workers=nshards) as ex:
            results = list(ex.map(one, paths))
        verdicts = {}
        for sh, r in zip(shards, results):
            if r.rc != 0:
                raise tlc.TLCError("Trace_Lazy failed: " + tlc.brief(r.out))
            recs = r.printed()
            if len(recs) != len(sh):
                raise tlc.TLCError("Trace_Lazy: %d verdicts for %d histories" % (len(recs), len(sh)))
            for v in recs:
                verdicts[v["tid"]] = v
        return verdicts, results
    finally:
        shutil.rmtree(scratch, ignore_errors=True)


def ev_str(ev):
    op = ev["op"]
    if op in ("read", "probe", "assign", "mutate"):
        return "%s(%s.%s.%s)" % (op, ev["T"], ev["a"], ev["p"])
    if op in ("init", "reload"):
        return "%s(%s,%s)" % (op, ev["g"], ev["T"])
    if op == "create":
        return "create(%s)" % ev["T"]
    if op == "import":
        return "import(%s)" % ev["m"]
    if op == "calc":
        return "calc(%s)" % ev["c"]
    if op == "pickle":
        return "pickle(%s.%s)" % (ev["T"], ev["a"])
    return "%s(%s)" % (op, ev.get("T", ""))


def is_private(h):
    return any(ev.get("T", "pub") != "pub" for ev in h)


def signature(h, v, steps=None):
    """Signature of a requirement failure used for known-finding matching.

    cause  = the events (as strings) that precede the failing step, reduced to the
             kinds that can change loader state: first-touch class of the group(s)
    cell   = what was observed wrong.
    """
    step = v["step"]
    evs = h[:min(step, len(h))]
    failing = h[step - 1] if step <= len(h) else None
    # which group does the failing cell belong to?
    cell = v.get("got", "") if failing is None else ""
    if failing is not None and "p" in failing:
        grp = lazyexec.GROUP_OF.get(failing["p"], "")
    elif failing is not None and failing["op"] == "calc":
        grp = "calc"
    elif "." in cell:
        last = cell.split(".")[-1]
        grp = lazyexec.GROUP_OF.get(last, last)
    else:
        grp = ""
    # in-place changes of a missing-data placeholder that precede the failing step
    cause = ""
    for e, st in zip(evs, steps or []):
        if e["op"] == "mutate" and st["out"].get("cls") == "ok:P" and lazyexec.GROUP_OF.get(e["p"]) == grp:
            cause = "mutate-placeholder:" + e["p"]
    return {"clause": v["clause"], "got": v.get("got"), "want": v.get("want"), "group": grp, "cause": cause,
            "at": ev_str(failing) if failing else "final",
            "history": [ev_str(e) for e in evs]}


def process(ctx, configs, quick, only_private=None, extra_histories=(), always=()):
    """configs: list of (groups, priv, max_asg, max_mut).  Runs everything and reports into ctx."""
    load_fix_flags()
    rng = random.Random(ctx.seed)
    all_h = []
    seen = set()
    model_bad = 0
    with ThreadPoolExecutor(max_workers=8) as ex:
        explored = list(ex.map(lambda c: explore(*c), configs))
    for (groups, priv, ma, mm), (res, graph, init) in zip(configs, explored):
        ctx.tlc("MC_Lazy %s priv=%s" % ("+".join(groups), ",".join(priv) or "-"), res)
        nb = sum(1 for s in graph.values() if s["bad"] or s["shared"] or s["fresh"])
        model_bad += nb
        ctx.cov.setdefault("model_states_violating_invariants", {})["+".join(groups) + "/" + ",".join(priv)] = nb
        for h in histories_from_graph(graph, init, rng, quick):
            k = canon(h)
            if k not in seen:
                seen.add(k)
                all_h.append(h)
    for h in extra_histories:
        k = canon(h)
        if k not in seen:
            seen.add(k)
            all_h.append(h)
    if only_private is True:
        all_h = [h for h in all_h if is_private(h)]
    elif only_private is False:
        all_h = [h for h in all_h if not is_private(h)]
    for h in always:
        k = canon(h)
        if k not in seen:
            seen.add(k)
            all_h.append(h)
    canon_rec = canonical_record()
    outs = run_histories(all_h, heap_for=extra_histories)
    traces = []
    for i, (h, (st, res)) in enumerate(zip(all_h, outs)):
        if st != "ok":
            ctx.error("history child failed: %s :: %s" % ([ev_str(e) for e in h], res[-500:]))
            continue
        traces.append({"tid": i, "events": h, "steps": res["steps"], "final": res["final"]})
    if not traces:
        ctx.error("no histories executed")
        return
    verdicts, results = validate(canon_rec, traces)
    for r in results:
        ctx.tlc("Trace_Lazy", r)
    ndrift = 0
    for t in traces:
        v = verdicts[t["tid"]]
        h = t["events"]
        ctx.count("histories")
        ctx.cov["traces_validated_against_impl"] += 1
        ctx.distinct(canon(h))
        if v["drift"]["step"]:
            ndrift += 1
            if len(ctx.cov["model_drift"]) < 10:
                ctx.cov["model_drift"].append({"history": [ev_str(e) for e in h], "step": v["drift"]["step"],
                                               "why": v["drift"]["why"]})
        for viol in v["viol"]:
            rec = signature(h, viol, t["steps"])
            rec["kind"] = "lazy"
            rec["events"] = h
            ctx.violation(rec)
    ctx.cov["model_drift_count"] = ndrift
    ctx.cov["model_invariant_violating_states"] = model_bad
    for t in traces[:3] + traces[-3:]:
        ctx.sample({"history": [ev_str(e) for e in t["events"]],
                    "outcomes": [s["out"].get("cls") for s in t["steps"]]})
    ctx.cov["rule"] = ("histories = for every state of the TLC-explored PTLazy graph: shortest event path to it followed by "
                       "(a) all its self-loop events, (b) each non-tree outgoing event; distinct = distinct event sequences; "
                       "each is executed in its own fresh interpreter and validated by TLC against PTLazy and PTServe")
    ctx.cov["exhaustive"] = not quick


def replay(ctx, path):
    """Re-execute the histories of a replay file and re-validate them."""
    load_fix_flags()
    with open(path) as f:
        data = json.load(f)
    hs = []
    seen = set()
    for v in data.get("violations", []):
        h = v.get("events")
        if h and canon(h) not in seen:
            seen.add(canon(h))
            hs.append(h)
    hs = hs[:50]
    canon_rec = canonical_record()
    outs = run_histories(hs, heap_for=hs)
    traces = [{"tid": i, "events": h, "steps": r[1]["steps"], "final": r[1]["final"]}
              for i, (h, r) in enumerate(zip(hs, outs)) if r[0] == "ok"]
    verdicts, results = validate(canon_rec, traces)
    for r in results:
        ctx.tlc("Trace_Lazy", r)
    for t in traces:
        ctx.cov["traces_validated_against_impl"] += 1
        ctx.count("histories")
        ctx.distinct(canon(t["events"]))
        for viol in verdicts[t["tid"]]["viol"]:
            rec = signature(t["events"], viol, t["steps"])
            rec["kind"] = "lazy"
            rec["events"] = t["events"]
            ctx.violation(rec)
        ctx.sample({"history": [ev_str(e) for e in t["events"]]})
    return ctx.finish()
