"""Per-run context: violations, known findings, evidence, exit status."""
import json
import os
import re
import sys
import time

VERIF = os.path.dirname(os.path.dirname(os.path.dirname(os.path.abspath(__file__))))
REPO = os.environ.get("PT_REPO", "/repo")


def load_findings():
    p = os.path.join(VERIF, "known_findings.json")
    if not os.path.exists(p):
        return []
    with open(p) as f:
        return json.load(f).get("findings", [])


def _match_value(pat, val):
    if isinstance(pat, list):
        return any(_match_value(p, val) for p in pat)
    if isinstance(pat, str) and pat.startswith("re:"):
        return isinstance(val, str) and re.search(pat[3:], val) is not None
    return pat == val


def match_finding(prop, rec, findings):
    for f in findings:
        if f.get("property") != prop or f.get("status") != "known":
            continue
        m = f.get("match", {})
        if all(k in rec and _match_value(v, rec[k]) for k, v in m.items()):
            return f
    return None


class Ctx(object):
    def __init__(self, prop, tier, seed, level="model_checking"):
        self.prop = prop
        self.tier = tier
        self.seed = seed
        self.level = level
        self.t0 = time.time()
        self.findings = load_findings()
        self.violations = []
        self.known_hits = {}
        self.cov = {"states": 0, "transitions": 0, "traces_validated_against_impl": 0,
                    "evaluations": 0, "distinct_nontrivial": 0, "samples": [], "rule": "",
                    "exhaustive": False, "tlc_runs": [], "model_drift": [], "parts": {}}
        self.assumptions = []
        self.machinery_errors = []
        self._distinct = set()

    # -- accounting ---------------------------------------------------------
    def tlc(self, name, res):
        """Record a TLC run's own statistics."""
        self.cov["states"] += res.distinct
        self.cov["transitions"] += res.states_generated
        self.cov["tlc_runs"].append({"name": name, "distinct_states": res.distinct,
                                     "states_generated": res.states_generated,
                                     "depth": res.depth, "wall_s": round(res.wall, 2)})

    def count(self, part, n=1):
        self.cov["parts"][part] = self.cov["parts"].get(part, 0) + n
        self.cov["evaluations"] += n

    def distinct(self, key):
        self._distinct.add(key)

    def sample(self, s, limit=12):
        if len(self.cov["samples"]) < limit:
            self.cov["samples"].append(s)

    def error(self, msg):
        self.machinery_errors.append(msg)
        sys.stderr.write("MACHINERY: %s\n" % msg)

    # -- violations ---------------------------------------------------------
    def violation(self, rec):
        """rec: dict describing one observation of the real code that contradicts the property."""
        f = match_finding(self.prop, rec, self.findings)
        if f is not None:
            key = f.get("id") or f.get("what")
            if key not in self.known_hits:
                self.known_hits[key] = {"finding": f, "n": 0, "first": rec}
            self.known_hits[key]["n"] += 1
            return False
        self.violations.append(rec)
        return True

    def finish(self):
        wall = time.time() - self.t0
        os.makedirs(os.path.join(VERIF, "evidence"), exist_ok=True)
        os.makedirs(os.path.join(VERIF, "replays"), exist_ok=True)
        for key, h in sorted(self.known_hits.items()):
            print("KNOWN-FINDING: property=%s %s (%d observations)" % (self.prop, h["finding"].get("what", key), h["n"]))
        replay = os.path.join(VERIF, "replays", "%s-%s-%d.json" % (self.prop, self.tier, self.seed))
        if not self.violations and os.path.exists(replay):
            os.remove(replay)
        if self.violations:
            with open(replay, "w") as f:
                json.dump({"property": self.prop, "seed": self.seed, "tier": self.tier,
                           "violations": self.violations[:200]}, f, indent=1, default=str)
        self.cov["distinct_nontrivial"] = len(self._distinct)
        self.cov["known_findings_hit"] = [{"what": h["finding"].get("what"), "observations": h["n"]}
                                          for h in self.known_hits.values()]
        if not self.cov["samples"]:
            self.cov["samples"] = ["(none recorded)"]
        ev = {"property_id": self.prop, "tier": self.tier, "seed": self.seed, "level": self.level,
              "coverage": self.cov, "assumptions": self.assumptions, "wall_s": round(wall, 2),
              "violations": len(self.violations)}
        if self.machinery_errors:
            ev["machinery_errors"] = self.machinery_errors[:20]
        evdir = os.path.join(VERIF, "evidence")
        if os.path.realpath(REPO) != "/repo":
            # a run against a scratch copy of the repository (mutant testing) must not overwrite the committed evidence
            evdir = os.path.join("/tmp", "ptv-evidence-scratch")
            os.makedirs(evdir, exist_ok=True)
        with open(os.path.join(evdir, self.prop + ".json"), "w") as f:
            json.dump(ev, f, indent=1, default=str)
        if self.machinery_errors:
            print("MACHINERY-FAILURE property=%s %s" % (self.prop, self.machinery_errors[0][:300]))
            return 2
        if self.violations:
            for v in self.violations[:8]:
                brief = dict((k, x) for k, x in v.items() if k not in ("events", "detail"))
                print("  violation: %s" % json.dumps(brief, default=str)[:500])
            if len(self.violations) > 8:
                print("  ... %d violations in total" % len(self.violations))
            print("VIOLATION property=%s replay=%s" % (self.prop, replay))
            return 1
        print("OK property=%s tier=%s seed=%d states=%d transitions=%d traces=%d evaluations=%d wall=%.1fs" % (
            self.prop, self.tier, self.seed, self.cov["states"], self.cov["transitions"],
            self.cov["traces_validated_against_impl"], self.cov["evaluations"], wall))
        return 0
