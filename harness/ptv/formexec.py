"""Build formulas in a forked interpreter from a small expression language and observe them.

expr :=  ["str", s] | ["atom", z, a, q] | ["dict", [[z,a,q,count], ...]] | ["seq", nested] | ["copy", e]
       | ["add", e1, e2] | ["mul", n, e] | ["mixw", [[e, q], ...]] | ["mixv", [[e, q], ...]]
nested := [[count, [z,a,q]] | [count, nested], ...]
"""
import re
from . import dec

_T = {}


def _tab(T):
    import periodictable
    from periodictable import core, mass, density
    if T in (None, "public"):
        return periodictable.elements
    if T not in _T:
        t = core.PeriodicTable(T)
        mass.init(t)
        density.init(t)
        if T == "T2":
            customise(t)
        _T[T] = t
    return _T[T]


def customise(t):
    """T2 is a private table whose owner changed its data (as the guide's H=1 mass scale does): masses and densities
    differ from the public table's, so a calculation that silently falls back to the public table gives other numbers."""
    for el in t:
        k = 1.0 + 0.015625 * (1 + el.number % 5)
        if getattr(el, "_mass", None) is not None:
            el._mass = el._mass * k
        for iso in el:
            if "_mass" in vars(iso) and iso._mass is not None:
                iso._mass = iso._mass * k
        if getattr(el, "_density", None) is not None:
            el._density = el._density * (1.0 + 0.03125 * (1 + el.number % 3))


def atom(z, a, q, T=None):
    t = _tab(T)
    o = t[z]
    if a:
        o = o[a]
    if q:
        o = o.ion[q]
    return o


def _nested(x, T):
    out = []
    for count, frag in x:
        if frag and isinstance(frag[0], int):
            out.append((count, atom(frag[0], frag[1], frag[2], T)))
        else:
            out.append((count, _nested(frag, T)))
    return out


TOUCH = False      # when set, every intermediate formula is printed / Hill-ordered / counted before it is used


def _touch(f):
    if TOUCH:
        str(f), repr(f), f.hill, f.atoms, f.mass
    return f


def build(e, T=None):
    return _touch(_build(e, T))


def _build(e, T=None):
    import periodictable as P
    from periodictable import formulas
    k = e[0]
    if k == "named":
        return P.formula(build(e[2], T), name=e[1])
    if k == "str":
        return P.formula(e[1], table=_tab(T) if T else None)
    if k == "atom":
        return P.formula(atom(e[1], e[2], e[3], T))
    if k == "dict":
        return P.formula(dict((atom(z, a, q, T), c) for z, a, q, c in e[1]))
    if k == "seq":
        return P.formula(_nested(e[1], T))
    if k == "copy":
        return P.formula(build(e[1], T))
    if k == "add":
        return build(e[1], T) + build(e[2], T)
    if k == "mul":
        return e[1] * build(e[2], T)
    if k == "intab":              # this part of the expression is built from another table's atoms
        return build(e[2], e[1])
    if k == "deepcopy":
        import copy
        return copy.deepcopy(build(e[1], T))
    if k == "pickle":
        import pickle
        return pickle.loads(pickle.dumps(build(e[1], T)))
    if k == "none":
        return P.formula()
    if k == "iadd":           # in-place accumulation onto the left operand
        x = build(e[1], T)
        x += build(e[2], T)
        return x
    if k == "mixw":
        args = []
        for x, q in e[1]:
            args += [build(x, T), q]
        return formulas.mix_by_weight(*args)
    if k == "mixv":
        args = []
        for x, q in e[1]:
            args += [build(x, T), q]
        return formulas.mix_by_volume(*args)
    raise KeyError(k)


def key(a):
    from periodictable import core
    q = a.charge if core.ision(a) else 0
    base = a.element if core.ision(a) else a
    A = base.isotope if core.isisotope(base) else 0
    return base.number, A, q


def structure(seq):
    from periodictable import core
    out = []
    for count, frag in seq:
        if core.isatom(frag):
            z, a, q = key(frag)
            out.append({"c": dec.to_dec(count), "k": "atom", "z": z, "a": a, "q": q})
        else:
            out.append({"c": dec.to_dec(count), "k": "grp", "body": structure(frag)})
    return out


TOKEN_RE = re.compile(r"""
   (?P<sym>[A-Z][a-z]*)
 | \[(?P<iso>[1-9][0-9]*)\]
 | \{(?P<ionn>[1-9][0-9]*)?(?P<ions>[+-])\}
 | (?P<num>(?:(?:0|[1-9][0-9]*)?\.[0-9]*)|(?:[1-9][0-9]*))
 | (?P<lp>\()
 | (?P<rp>\))
 | (?P<sep>[ \t]*\+[ \t]*|[ \t]+)
 | @(?P<dens>(?:(?:0|[1-9][0-9]*)?\.[0-9]+)|(?:(?:0|[1-9][0-9]*)\.)|(?:[1-9][0-9]*))(?P<dkind>[ni]?)
""", re.X)


def lex(s):
    toks = []
    i = 0
    while i < len(s):
        m = TOKEN_RE.match(s, i)
        if not m or m.end() == i:
            toks.append({"t": "bad", "s": s[i]})
            i += 1
            continue
        g = m.lastgroup
        if g == "sym":
            toks.append({"t": "sym", "s": m.group("sym")})
        elif g == "iso":
            toks.append({"t": "iso", "n": int(m.group("iso"))})
        elif g in ("ions", "ionn"):
            n = int(m.group("ionn") or 1)
            toks.append({"t": "ion", "q": n if m.group("ions") == "+" else -n})
        elif g == "num":
            txt = m.group("num")
            if txt in (".",):
                toks.append({"t": "bad", "s": txt})
            else:
                toks.append({"t": "num", "v": dec.to_dec(txt if not txt.startswith(".") else "0" + txt)})
        elif g == "lp":
            toks.append({"t": "lp"})
        elif g == "rp":
            toks.append({"t": "rp"})
        elif g in ("dens", "dkind"):
            txt = m.group("dens")
            toks.append({"t": "dens", "v": dec.to_dec(txt if not txt.startswith(".") else "0" + txt), "kind": m.group("dkind") or "i"})
        else:
            toks.append({"t": "sep", "plus": "+" in m.group("sep")})
        i = m.end()
    return toks


NAMES = ["", "my name", "Baker's yeast", "5'-AMP", "D:\\samples\\run7", 'the "good" batch', "two\nlines", "caf\u00e9 au lait", "50% w/w"]


def observe_print(arg):
    """arg: {"items":[{"id", "expr", "T"}]} -> events for Trace_Print."""
    import periodictable as P
    out = []
    global TOUCH
    for it in arg["items"]:
        ev = {"id": it["id"]}
        TOUCH = bool(it.get("touch"))
        try:
            f = build(it["expr"], it.get("T"))
        except Exception as e:
            ev["build_exc"] = "%s: %s" % (type(e).__name__, str(e)[:80])
            out.append(ev)
            continue
        if any(_has_nonpositive(f.structure)):
            ev["skip"] = "nonpositive count"
            out.append(ev)
            continue
        s = str(f)
        ev["str"] = s
        ev["orig"] = structure(f.structure)
        ev["chars"] = [ord(c) for c in s]
        try:
            g = P.formula(s, table=_tab(it.get("T")) if it.get("T") else None)
            ev["back"] = {"items": structure(g.structure)}
        except Exception as e:
            ev["back"] = {"exc": type(e).__name__}
        ev["reprok"] = repr(f) == "formula('%s')" % s
        try:
            nm = NAMES[it["id"] % len(NAMES)] if isinstance(it["id"], int) else "my name"
            n = P.formula(f, name=nm)
            if not nm:
                n.name = nm            # a name field cleared by the caller
            shown = nm if nm else s          # (an empty name is no name: the formula prints its atoms)
            ev["nameok"] = (str(n) == shown) and (repr(n) == "formula('%s')" % shown)
        except Exception:
            ev["nameok"] = False
        out.append(ev)
    return out


def _has_nonpositive(seq):
    from periodictable import core
    for count, frag in seq:
        yield not (count > 0)
        if not core.isatom(frag):
            for x in _has_nonpositive(frag):
                yield x


def _symcodes(a):
    return [ord(ch) for ch in a.symbol]


def flat(f):
    """Hill structure as a flat list of atoms with counts (or None if it is nested)."""
    from periodictable import core
    out = []
    for count, frag in f.structure:
        if not core.isatom(frag):
            return None
        z, a, q = key(frag)
        out.append({"c": dec.to_dec(count), "z": z, "a": a, "q": q, "sym": _symcodes(frag), "t": _owner_name(frag)})
    return out


def bag(f):
    out = []
    for at, c in f.atoms.items():
        z, a, q = key(at)
        out.append({"c": dec.to_dec(c), "z": z, "a": a, "q": q, "t": _owner_name(at)})
    return sorted(out, key=lambda x: (x["z"], x["a"], x["q"], x["t"]))


def observe_hill(arg):
    """items: {"id", "variants": [expr...], "hillstr_atoms": [[z,a,q,count]...]} """
    import periodictable as P
    out = []
    global TOUCH
    for it in arg["items"]:
        ev = {"id": it["id"]}
        TOUCH = bool(it.get("touch"))
        try:
            fs = [build(e, it.get("T")) for e in it["variants"]]
            hs = [f.hill for f in fs]
            ev["bags"] = [bag(f) for f in fs]
            ev["hills"] = [flat(h) for h in hs]
            ev["hillbags"] = [bag(h) for h in hs]
            ev["nested"] = any(x is None for x in ev["hills"])
            ev["hills"] = [x or [] for x in ev["hills"]]
            ev["eq"] = [bool(hs[0] == h) for h in hs]
            ev["streq"] = [str(hs[0]) == str(h) for h in hs]
            ev["idem"] = [bool(h.hill == h) for h in hs]
            s = str(hs[0])
            ev["hillstr"] = s
            if it.get("noparse"):
                # the neutron cannot be written in the grammar, atoms of two tables cannot be written in one string
                ev["parsed_eq_hill"] = ev["parsed_is_same"] = True
            else:
                g = P.formula(s, table=_tab(it.get("T")) if it.get("T") else None)
                ev["parsed_eq_hill"] = bool(g == g.hill)
                ev["parsed_is_same"] = bool(g == hs[0])
        except Exception as e:
            ev["exc"] = "%s: %s" % (type(e).__name__, str(e)[:100])
        out.append(ev)
    return out


# ---- C02: pool histories ----------------------------------------------------
BASE_BAGS = {"CH4": [(1, 1), (2, 4)], "H2O": [(2, 2), (3, 1)], "Fe3O4": [(4, 1), (5, 2), (3, 4)], "D2O18": [(7, 2), (6, 1)],
             "hydrate": None, "zero": None, "empty": None, "half": [(2, 0.5), (3, 1.5)], "H": [(2, 1)]}


class InitializerChanged(Exception):
    pass


def _base(how, b, ats, T):
    """ats: index (1-based) -> (z, a, q, rendered)."""
    import periodictable as P
    A = lambda i: atom(ats[i - 1][0], ats[i - 1][1], ats[i - 1][2], T)
    R = lambda i: ats[i - 1][3]
    tab = _tab(T) if T else None
    variant = sum(a[0] + a[1] + a[2] for a in ats) % 4      # spelling variant, fixed by the atoms of the history
    if b == "hydrate":
        if how == "str":
            carb, water = "%s%s3" % (R(1), R(3)), "6%s2%s" % (R(2), R(3))
            s = [carb + "+" + water, water + " " + carb, carb + " " + water, water + "+" + carb][variant]
            return P.formula(s, table=tab)
        if how == "dict":
            return P.formula({A(1): 1, A(3): 9, A(2): 12})
        if how == "gen":      # one-shot iterables, nested
            return P.formula(iter([(1, A(1)), (3, A(3)), (6, ((c, a) for c, a in [(2, A(2)), (1, A(3))]))]))
        return P.formula([(1, A(1)), (3, A(3)), (6, [(2, A(2)), (1, A(3))])])
    if b == "empty":
        if how == "str":
            return P.formula("", table=tab)
        if how == "dict":
            return P.formula({})
        if how == "gen":
            return P.formula(iter(()))
        return P.formula([])
    if b == "zero":           # C O0 H2: a member with count zero contributes nothing
        if how == "str":
            ztxt = ["0.0", "0.", ".0", "0.00"][variant]
            s = ["%s%s%s%s2" % (R(1), R(3), ztxt, R(2)), "%s(%s%s)%s%s2" % (R(1), R(3), R(2), ztxt, R(2)),
                 "%s%s2+%s%s" % (R(1), R(2), ztxt, R(3)), "%s%s%s %s2" % (R(1), R(3), ztxt, R(2))][(variant + ats[0][0]) % 4]
            return P.formula(s, table=tab)
        if how == "dict":
            d = {A(1): 1, A(3): 0.0, A(2): 2}
            keep = dict(d)
            f = P.formula(d)
            if d != keep or list(d) != list(keep):
                raise InitializerChanged("formula(dict) changed the caller's dict")
            return f
        if how == "gen":
            return P.formula(zip([1, 0, 2], [A(1), ((1, A(3)),), A(2)]))
        return P.formula([(1, A(1)), (0, [(1, A(3)), (2, A(2))]), (2, A(2))])
    pairs = BASE_BAGS[b]
    if how == "atom":
        return P.formula(A(pairs[0][0]))
    if how == "str" and b == "half" and variant:
        # a group with a decimal multiplier above one, followed by more atoms: (O)1.5H0.5, (O3H)0.5, (O)1.5 H0.5
        s = ["", "(%s)1.5%s0.5" % (R(3), R(2)), "(%s3%s)0.5" % (R(3), R(2)), "(%s)1.5 %s0.5" % (R(3), R(2))][variant]
        return P.formula(s, table=tab)
    if how == "str":
        s = "".join("%s%s" % (R(i), ("" if c == 1 else ("%g" % c))) for i, c in pairs)
        return P.formula(s, table=tab)
    if how == "dict":
        d = dict((A(i), c) for i, c in pairs)
        keep = dict(d)
        f = P.formula(d)
        if d != keep or list(d) != list(keep):
            raise InitializerChanged("formula(dict) changed the caller's dict")
        return f
    if how == "gen":
        return P.formula((c, A(i)) for i, c in pairs)
    return P.formula([(c, A(i)) for i, c in pairs])


def observe_pool(arg):
    import periodictable as P
    from periodictable import constants
    out = []
    for it in arg["items"]:
        ats = it["atoms"]
        T = it.get("T")
        home = T or "public"
        other = "T1" if home == "public" else "public"
        tabname = {0: home, 1: other}
        index = {}
        for i, a in enumerate(ats):
            index[(a[0], a[1], a[2])] = i + 1

        def slot(at):
            """slot of the model bag: atom index, + len(ats) for the other table; 99 for anything else"""
            kk = key(at)
            owner = _owner_name(at)
            if kk not in index or owner not in (home, other):
                return 99
            return index[kk] + (len(ats) if owner == other else 0)
        ev = {"id": it["id"], "ops": it["ops"], "steps": []}
        try:
            if T and it.get("edit"):
                # the owner of the private table rescales its masses after they have been used once
                for (z, a, q, r) in ats:
                    at = atom(z, a, q, T)
                    _ = at.mass
                for z in sorted(set(a[0] for a in ats)):
                    el = _tab(T)[z]
                    el._mass = el._mass * 1.03125
                    for iso in el:
                        if "_mass" in vars(iso):
                            iso._mass = iso._mass * 1.03125
            ev["atoms"] = []          # one entry per slot: the seven atoms of the home table, then those of the other table
            for tn in (home, other):
                for (z, a, q, r) in ats:
                    at = atom(z, a, q, None if tn == "public" else tn)
                    base = at.element if q else at
                    ev["atoms"].append({"m": dec.to_dec(at.mass), "mbase": dec.to_dec(base.mass), "q": q})
            pool = {}
            for op in it["ops"]:
                k = op["op"]
                if k == "new":
                    tn = tabname[op.get("t", 0)]
                    pool[op["v"]] = _base(op["how"], op["b"], ats, None if tn == "public" else tn)
                elif k == "copy":
                    if (len(pool) + len(it["ops"])) % 3 == 0:
                        # the caller also asks for the same formula with table= naming the other table (what that gives is
                        # not the subject here; it is a call that returns a new formula, so it leaves its operand alone)
                        P.formula(pool[op["w"]], table=_tab(other))
                    pool[op["v"]] = P.formula(pool[op["w"]])
                elif k == "hill":
                    pool[op["v"]] = pool[op["a"]].hill
                elif k == "add":
                    pool[op["v"]] = pool[op["a"]] + pool[op["b"]]
                elif k == "rmul":
                    # "all non-negative real multipliers": the same number as float, int, Fraction or a numpy scalar
                    nv = float(op["n"])
                    import numpy
                    from fractions import Fraction
                    kinds = [float, Fraction, numpy.float64, numpy.float32] + ([int, numpy.int64] if nv.is_integer() else [])
                    mult = kinds[(len(pool) + len(it["ops"]) + int(nv * 4)) % len(kinds)](nv)
                    pool[op["v"]] = mult * pool[op["a"]]
                elif k == "iadd":
                    x = pool[op["a"]]
                    x += pool[op["b"]]
                    pool[op["a"]] = x
                elif k == "alias":
                    pool[op["v"]] = pool[op["w"]]
                elif k == "chtab":
                    pool[op["a"]].change_table(_tab(tabname[op["t"]]))
                step = {"pool": []}
                ids = {}
                for v in it["vars"]:
                    f = pool.get(v)
                    if f is None:
                        step["pool"].append({"bound": False})
                        continue
                    cls = ids.setdefault(id(f), len(ids) + 1)
                    b = {}
                    for at, c in f.atoms.items():
                        b[slot(at)] = b.get(slot(at), 0) + c
                    step["pool"].append({"bound": True, "bag": [{"i": i, "c": dec.to_dec(c)} for i, c in sorted(b.items()) if c != 0],
                                         "cls": cls})
                wv = op["a"] if k in ("iadd", "chtab") else op["v"]
                f = pool[wv]
                try:
                    fr = f.mass_fraction if f.mass else {}
                    step["num"] = {"mass": dec.to_dec(f.mass), "charge": dec.to_dec(f.charge),
                                   "molecular_mass": dec.to_dec(f.molecular_mass),
                                   "frac": [{"i": slot(at), "c": dec.to_dec(c)} for at, c in fr.items()]}
                except Exception as e:
                    step["num"] = {"exc": type(e).__name__}
                ev["steps"].append(step)
        except Exception as e:
            ev["exc"] = "%s: %s" % (type(e).__name__, str(e)[:120])
        out.append(ev)
    return out


def _owner_name(a):
    from periodictable import core
    base = a.element if core.ision(a) else a
    el = base.element if core.isisotope(base) else base
    return el.table


def observe_parse(arg):
    """Arbitrary strings through formula(): tokens + what the code made of them."""
    import periodictable as P
    out = []
    for it in arg["items"]:
        s = it["s"]
        ev = {"id": it["id"], "chars": [ord(c) for c in s]}
        try:
            f = P.formula(s)
            ev["res"] = {"atoms": [dict(zip(("z", "a", "q"), key(a)), c=dec.to_dec(c)) for a, c in f.atoms.items()],
                         "density": dec.enc(f.density)}
            try:
                ev["res"]["natural_density"] = dec.enc(f.natural_density) if f.density is not None else {"k": "none"}
            except Exception:
                ev["res"]["natural_density"] = {"k": "none"}
        except Exception as e:
            ev["res"] = {"exc": type(e).__name__}
            try:                      # asked again: a refused string stays refused
                P.formula(s)
                ev["again"] = "accepted"
            except Exception:
                ev["again"] = "exc"
        out.append(ev)
    return out
