"""Run functions in freshly forked interpreters (periodictable not yet imported).

The parent (and the pool workers) import numpy / pyparsing so that the child's
`import periodictable` costs ~35 ms, but never import periodictable itself.
"""
import json
import multiprocessing
import os
import pickle
import sys
import traceback

from .ctx import REPO


def _preload():
    import numpy  # noqa
    import numpy.lib  # noqa
    import pyparsing  # noqa
    import hashlib, importlib, re, copy, math, io, contextlib, decimal, fractions, random  # noqa


def _child(fn_module, fn_name, arg, wfd):
    try:
        if REPO not in sys.path:
            sys.path.insert(0, REPO)
        sys.dont_write_bytecode = True
        mod = __import__(fn_module, fromlist=[fn_name])
        res = ("ok", getattr(mod, fn_name)(arg))
    except BaseException as e:
        res = ("err", "%s: %s\n%s" % (type(e).__name__, e, traceback.format_exc()[-2000:]))
    with os.fdopen(wfd, "wb") as f:
        pickle.dump(res, f, protocol=pickle.HIGHEST_PROTOCOL)
    os._exit(0)


def fresh_call(task):
    """Run module.fn(arg) in a forked child; returns ("ok", value) or ("err", text)."""
    fn_module, fn_name, arg = task
    assert "periodictable" not in sys.modules, "periodictable leaked into the zygote"
    r, w = os.pipe()
    pid = os.fork()
    if pid == 0:
        os.close(r)
        _child(fn_module, fn_name, arg, w)
    os.close(w)
    with os.fdopen(r, "rb") as f:
        data = f.read()
    os.waitpid(pid, 0)
    if not data:
        return ("err", "child died without output")
    return pickle.loads(data)


_pool = None


def pool(n=None):
    global _pool
    if _pool is None:
        _preload()
        ctx = multiprocessing.get_context("fork")
        _pool = ctx.Pool(n or min(16, os.cpu_count() or 4))
    return _pool


def map_fresh(fn_module, fn_name, args, chunksize=1):
    """Each arg is evaluated as module.fn(arg) in its own fresh interpreter, in parallel."""
    tasks = [(fn_module, fn_name, a) for a in args]
    if not tasks:
        return []
    return pool().map(fresh_call, tasks, chunksize=chunksize)


def call_fresh(fn_module, fn_name, arg):
    _preload()
    return fresh_call((fn_module, fn_name, arg))


def close():
    global _pool
    if _pool is not None:
        _pool.close()
        _pool.join()
        _pool = None


# convenience for lazy histories
def _run_history(arg):
    from ptv import lazyexec
    history, opts = arg
    return lazyexec.execute(history, opts)
