"""C20 observations in a forked interpreter."""
from . import dec


def _get(fn):
    try:
        return dec.enc(fn())
    except AttributeError:
        return {"k": "exc"}


def serve(arg):
    import periodictable
    from periodictable import core, mass, density, covalent_radius, crystal_structure, xsf, magnetic_ff, cromermann
    def private(name):
        t = core.PeriodicTable(name)
        for m in (mass, density, covalent_radius, crystal_structure, magnetic_ff):
            m.init(t)
        xsf.init(t)
        xsf.init_spectral_lines(t)
        return t

    def scribble(t):
        """what the owner of a private table may do with its data: override and edit it in place"""
        for z in arg["zs"]:
            el = t[z]
            el.covalent_radius, el.covalent_radius_uncertainty = 9.99, 0.99
            el.K_alpha, el.K_beta1 = 9.99, 8.88
            cs = getattr(el, "crystal_structure", None)
            if isinstance(cs, dict):
                cs["symmetry"] = "edited"
                cs["a"] = 99.0
            try:
                mf = el.magnetic_ff
            except AttributeError:
                continue
            for q, ff in mf.items():
                for jn in ("j0", "J", "j2", "j4", "j6"):
                    if jn in vars(ff):
                        setattr(ff, jn, tuple(9.0 for _ in getattr(ff, jn)))
                        break
    # order of service: the private table; then (after its owner has edited it) the public table and a second,
    # freshly initialised private table
    order = [("public", periodictable.elements)]
    if arg.get("private"):
        order = [("T1", private("T1")), ("public", periodictable.elements), ("T2", None)]
    out = []
    Qs = arg["Qs"]
    for T, t in order:
        if T == "public" and arg.get("private"):
            scribble(order[0][1])
        if T == "T2":
            t = private("T2")
        for z in arg["zs"]:
            el = t[z]
            ev = {"ev": "serve_el", "id": "el:%s:%d" % (T, z), "T": T, "z": z,
                  "cr": _get(lambda: el.covalent_radius), "cru": _get(lambda: el.covalent_radius_uncertainty),
                  "ka": _get(lambda: el.K_alpha), "kb": _get(lambda: el.K_beta1)}
            try:
                cs = el.crystal_structure
                if cs is None:
                    ev["cs"] = {"k": "none"}
                else:
                    ev["cs"] = {"k": "dict", "symmetry": cs.get("symmetry"),
                                "nums": dict((k, dec.to_dec(v)) for k, v in cs.items() if k != "symmetry")}
            except AttributeError:
                ev["cs"] = {"k": "exc"}
            out.append(ev)
            mv = {"ev": "serve_mag", "id": "mag:%s:%d" % (T, z), "T": T, "z": z, "noattr": False, "sets": {}}
            try:
                mf = el.magnetic_ff
                for probe in (8, -8):            # asking for a charge state that has no entry does not create one
                    try:
                        mf[probe]
                    except KeyError:
                        pass
                mv["charges"] = sorted(int(q) for q in mf)
                for q, ff in mf.items():
                    sets = {}
                    for jn in ("j0", "J", "j2", "j4", "j6"):
                        if jn in vars(ff):
                            sets[jn] = [dec.enc(x) for x in getattr(ff, jn)]
                    mv["sets"][str(q)] = sets
                    for jn in sets:
                        for Q in Qs:
                            val = getattr(ff, jn + "_Q")(Q)
                            out.append({"ev": "eval_mag", "id": "ev:%s:%d:%d:%s:%s" % (T, z, q, jn, Q), "T": T, "z": z, "q": q,
                                        "jn": jn, "Q": dec.to_dec(Q), "coef": sets[jn], "val": dec.enc(float(val))})
                    # the same sets over one float array of Q, one after the other: the array is the caller's and must come
                    # back unchanged, and every vector answer is the scalar answer point by point
                    import numpy
                    arr = numpy.array([float(Q) for Q in Qs])
                    keep = arr.copy()
                    vec = {}
                    for jn in list(sets) + (["M"] if "j0" in sets else []):
                        got = numpy.asarray(getattr(ff, jn + "_Q")(arr), dtype=float)
                        ref = [float(getattr(ff, (jn if jn != "M" else "j0") + "_Q")(float(Q))) for Q in keep]
                        vec[jn] = {"vec": [dec.enc(float(x)) for x in got.tolist()] if got.shape == keep.shape else [],
                                   "scalar": [dec.enc(x) for x in ref]}
                    out.append({"ev": "eval_mag_vec", "id": "evv:%s:%d:%d" % (T, z, q), "kept": bool((arr == keep).all()), "sets": vec})
            except AttributeError:
                mv["noattr"] = True
            out.append(mv)
            if T == "public":
                for q in [0] + list(arg["ions"][str(z)]) + [11]:
                    sym = el.symbol + (("%+i" % q)[::-1] if q else "")
                    cv = {"ev": "serve_cm", "id": "cm:%d:%d" % (z, q), "z": z, "q": q}
                    try:
                        f = cromermann.getCMformula(sym)
                        cv["a"] = [dec.enc(x) for x in f.a]
                        cv["b"] = [dec.enc(x) for x in f.b]
                        cv["c"] = dec.enc(f.c)
                    except KeyError:
                        cv["exc"] = "KeyError"
                    # the same entry through the calculator routes: symbol text, charge keyword (which overrides a
                    # valence suffix, also with charge=0), and the atom's own f0
                    def route(fn):
                        try:
                            return dec.enc(float(fn()))
                        except (KeyError, ValueError):
                            return {"k": "exc"}
                    Q0 = 1.25
                    routes = {"text": route(lambda: cromermann.fxrayatq(sym, Q0)),
                              "kw": route(lambda: cromermann.fxrayatq(el.symbol, Q0, charge=q)),
                              "kw_over_suffix": route(lambda: cromermann.fxrayatq(el.symbol + "2+", Q0, charge=q))}
                    if q == 0 or q in arg["ions"][str(z)]:
                        at = el.ion[q] if q else el
                        routes["atom"] = route(lambda: at.xray.f0(Q0))
                    cv["routes"] = routes
                    out.append(cv)
    return out
