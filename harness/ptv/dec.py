"""Python <-> TLA+ `Dec` values (spec/Dec.tla).

A Dec is {"s": -1|0|1, "m": [limbs little endian base 10^4], "e": limb exponent}.
Floats cross the boundary as the Dec of repr(x) (shortest round-trip decimal).
nan/inf/None/complex are tagged variants; see enc().
"""
from decimal import Decimal, getcontext
from fractions import Fraction
import math

getcontext().prec = 120

ZERO = {"s": 0, "m": [], "e": 0}


def from_decimal(d):
    d = Decimal(d)
    if d.is_nan() or d.is_infinite():
        raise ValueError("not finite")
    if d == 0:
        return dict(ZERO)
    sign, digits, exp = d.as_tuple()
    n = int("".join(map(str, digits)))
    # make exp a multiple of 4
    r = exp % 4
    n *= 10 ** r
    exp -= r
    e = exp // 4
    limbs = []
    while n:
        limbs.append(n % 10000)
        n //= 10000
    # strip low zeros
    while limbs and limbs[0] == 0:
        limbs.pop(0)
        e += 1
    return {"s": -1 if sign else 1, "m": limbs, "e": e}


def to_dec(x):
    """float/int/str/Decimal/Fraction -> Dec dict (exact for the decimal text)."""
    if isinstance(x, dict):
        return x
    if isinstance(x, bool):
        x = int(x)
    if isinstance(x, int):
        return from_decimal(Decimal(x))
    if isinstance(x, Fraction):
        return from_decimal(Decimal(x.numerator) / Decimal(x.denominator))
    if isinstance(x, Decimal):
        return from_decimal(x)
    if isinstance(x, str):
        return from_decimal(Decimal(x))
    x = float(x)
    return from_decimal(Decimal(repr(x)))


def to_decimal(d):
    n = 0
    for limb in reversed(d["m"]):
        n = n * 10000 + limb
    return Decimal(d["s"]) * Decimal(n) * (Decimal(10000) ** d["e"])


def enc(x):
    """Tagged numeric value for trace events.

    {"k":"num","v":Dec} | {"k":"nan"} | {"k":"inf","sg":+-1} | {"k":"none"}
    """
    if x is None:
        return {"k": "none"}
    try:
        import numpy as np
        if isinstance(x, np.generic):
            x = x.item()
    except ImportError:
        pass
    if isinstance(x, complex):
        return {"k": "cplx", "re": enc(x.real), "im": enc(x.imag)}
    if isinstance(x, (int, Fraction, Decimal)) and not isinstance(x, bool):
        return {"k": "num", "v": to_dec(x)}
    x = float(x)
    if math.isnan(x):
        return {"k": "nan"}
    if math.isinf(x):
        return {"k": "inf", "sg": 1 if x > 0 else -1}
    return {"k": "num", "v": to_dec(x)}


def tla(d):
    """Dec dict -> TLA+ record literal."""
    return "[s |-> %d, m |-> <<%s>>, e |-> %d]" % (d["s"], ", ".join(map(str, d["m"])), d["e"])
