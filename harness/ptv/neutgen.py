"""Generators of compounds for the neutron checks."""
import random
from decimal import Decimal
from . import rawtables, dec


def neutron_atoms():
    """(z, a) keys that have neutron data according to the raw table (elements without their own row inherit)."""
    rows = []
    for line in rawtables.const("nsf", "nsftable").split("\n"):
        c = line.split(",")
        parts = c[0].split("-")
        rows.append((int(parts[0]), int(parts[2]) if len(parts) == 3 else 0, c[3].strip() != "", c[6] == "E"))
    keys = [(z, a) for z, a, has_b, e in rows if has_b]
    have_el = set(z for z, a, _, _ in rows if a == 0)
    seen = set()
    for z, a, has_b, e in rows:
        if a and z not in have_el and z not in seen:
            seen.add(z)
            if has_b:
                keys.append((z, 0))
    edep = [(z, a) for z, a, has_b, e in rows if e]
    return sorted(set(keys)), sorted(set(edep))


def raw_has_data():
    """(z, a) -> True for the atoms that have neutron data according to the raw tables: a scattering length (own row, or
    the single isotope's row for an element without one) and a density for the element (the number density the
    calculators need)."""
    keys, _ = neutron_atoms()
    eb = rawtables.element_base()
    dens = rawtables.const("density", "element_densities")
    return dict(((z, a), dens.get(eb[z][1]) is not None) for z, a in keys)


def raw_energy_dependent():
    """(z, a) of the atoms the raw tables give an energy-dependent scattering length: the keys of
    nsf_tables.ENERGY_DEPENDENT_TABLES ((symbol, mass number) pairs) and natural Lu, which nsf.py mixes from its isotopes."""
    eb = rawtables.element_base()
    symz = dict((v[1], z) for z, v in eb.items())
    out = set()
    try:
        tabs = rawtables.const("nsf_tables", "ENERGY_DEPENDENT_TABLES")
    except Exception:
        tabs = rawtables.const("nsf", "ENERGY_DEPENDENT_TABLES")
    for (sym, a) in tabs:            # keys are (symbol, mass number or 0)
        out.add((symz[sym], int(a) if a else 0))
    out.add((71, 0))
    return out


def header():
    c = rawtables.module_constants("constants")
    D = lambda x: Decimal(repr(x))
    K = (D(c["plancks_constant"]) ** 2 * D(c["electron_volt"]) / (2 * D(c["neutron_mass"]) * D(c["atomic_mass_constant"]))) * Decimal(10) ** 23
    KV = (D(c["plancks_constant"]) * D(c["electron_volt"]) / (D(c["neutron_mass"]) * D(c["atomic_mass_constant"]))) * Decimal(10) ** 10
    return {"avogadro": dec.to_dec(c["avogadro_number"]), "energy_factor": dec.to_dec(K), "velocity_factor": dec.to_dec(KV),
            "consts": dict((k, dec.to_dec(c[k])) for k in ("plancks_constant", "electron_volt", "neutron_mass", "atomic_mass_constant"))}


class Compounds(object):
    def __init__(self, rng):
        self.rng = rng
        self.keys, self.edep = neutron_atoms()
        self.eb = rawtables.element_base()
        self.isos = rawtables.isotope_list()
        self.pool = list(self.keys)
        rng.shuffle(self.pool)
        self.i = 0
        self.tablelike = [(62, 0), (62, 149), (63, 0), (63, 151), (64, 0), (64, 155), (64, 157), (66, 164), (68, 0), (68, 167),
                          (70, 0), (70, 168), (70, 174), (71, 176), (71, 0)]

    def next_atom(self):
        z, a = self.pool[self.i % len(self.pool)]
        self.i += 1
        q = 0
        ions = self.eb[z][2]
        if ions and self.rng.random() < 0.25:
            q = self.rng.choice(ions)
        return [z, a, q]

    def compound(self, nmin=1, nmax=4, with_table=None, nodata=False):
        rng = self.rng
        n = rng.randint(nmin, nmax)
        atoms = []
        seen = set()
        while len(atoms) < n:
            a = self.next_atom()
            if tuple(a) in seen:
                continue
            seen.add(tuple(a))
            atoms.append(a)
        if with_table is None:
            with_table = rng.random() < 0.25
        if with_table:
            z, a = rng.choice(self.tablelike)
            if (z, a, 0) not in seen:
                atoms[rng.randrange(len(atoms))] = [z, a, 0]
        if nodata:
            # an isotope that exists in the mass table but not in the neutron table
            z = rng.choice([26, 27, 1, 8, 92])
            cand = [A for A in self.isos[z] if (z, A) not in set(self.keys)]
            atoms.append([z, rng.choice(cand), 0])
        counts = [rng.choice([1, 2, 3, 4, 0.5, 1.5, 12, 0.01, 7, 22]) for _ in atoms]
        return [[z, a, q, c] for (z, a, q), c in zip(atoms, counts)]
