"""C06 observations in a forked interpreter: what the library serves for each element / isotope."""
from . import dec


def serve(arg):
    import periodictable
    from periodictable import core, mass, density
    tabs = {"public": periodictable.elements}
    if arg.get("private"):
        t = core.PeriodicTable("T1")
        mass.init(t)
        density.init(t)
        tabs["T1"] = t
    out = []
    for T, t in sorted(tabs.items()):
        for z in arg["zs"]:
            el = t[z]
            for at, a in [(el, 0)] + [(iso, iso.isotope) for iso in el]:
                ev = {"ev": "serve", "T": T, "z": z, "a": a}
                try:
                    ev["mass"] = dec.enc(at.mass)
                    ev["mass_unc"] = dec.enc(at._mass_unc)
                    ev["abundance"] = dec.enc(at.abundance) if a else {"k": "none"}
                    ev["density"] = dec.enc(at.density)
                    ev["number_density"] = dec.enc(at.number_density)
                    ev["interatomic_distance"] = dec.enc(at.interatomic_distance)
                except Exception as e:
                    ev["exc"] = "%s: %s" % (type(e).__name__, str(e)[:80])
                out.append(ev)
    return out
