"""C06 observations in a forked interpreter: what the library serves for each element / isotope."""
from . import dec


def serve(arg):
    import periodictable
    from periodictable import core, mass, density
    tabs = {"public": periodictable.elements}
    variant = arg.get("variant", 0)

    def make_private():
        t = core.PeriodicTable("T1")
        rl = bool(variant & 8)    # (reload=True on a table that was never loaded is a plain load)
        if variant & 2:           # the two loaders in the other order
            density.init(t, reload=rl)
            mass.init(t, reload=rl)
        else:
            mass.init(t, reload=rl)
            density.init(t, reload=rl)
        return t
    if variant & 8:
        # the owner customised some masses; reload=True is the documented way to restore the table
        pub = periodictable.elements
        pub.D._mass, pub.T._mass, pub[26]._mass, pub[8][18]._mass = 2.5, 3.5, 60.0, 19.0
        pub[6][14]._abundance, pub[43][99]._abundance, pub[3][6]._abundance = 2.0, 50.0, 95.0      # (C-14 and Tc-99 are not in the composition table)
        mass.init(pub, reload=True)
    skip_public = False
    if variant & 16 and not variant & 8:
        # the public table has been customised (and is not served here); a private table initialised now still gets the
        # embedded tables, not the public table's current state
        pub = periodictable.elements
        for z in arg["zs"]:
            el = pub[z]
            if getattr(el, "_mass", None) is not None:
                el._mass, el._mass_unc = el._mass * 1.0625, 0.5
            if getattr(el, "_density", None) is not None:
                el._density = el._density * 2.0
            for iso in el:
                if "_mass" in vars(iso):
                    iso._mass = iso._mass * 1.03125
                if "_abundance" in vars(iso):
                    iso._abundance, iso._abundance_unc = iso._abundance * 0.5 + 1.0, 0.25
        skip_public = True
    late_private = bool(variant & 4) and arg.get("private")     # the private table is only created after the public one was served
    if arg.get("private") and not late_private:
        tabs["T1"] = make_private()
    out = []
    order = sorted(tabs.items(), reverse=True) + ([("T1", None)] if late_private else [])
    for T, t in order:
        if T == "public" and skip_public:
            continue
        if t is None:
            t = make_private()
        for z in arg["zs"]:
            el = t[z]
            ats = [(el, 0)] + [(iso, iso.isotope) for iso in el]
            if variant & 1:       # the first thing this interpreter is asked is the density of an isotope
                ats = ats[1:] + ats[:1]
            if z == 1:                # deuterium and tritium under their own names
                ats += [(t.D, 2, "D"), (t.T, 3, "T")]
            for x in ats:
                at, a = x[0], x[1]
                ev = {"ev": "serve", "T": T, "z": z, "a": a}
                if len(x) > 2:
                    ev["alias"] = x[2]
                try:
                    if variant & 1:
                        ev["density"] = dec.enc(at.density)
                    ev["mass"] = dec.enc(at.mass)
                    ev["mass_unc"] = dec.enc(at._mass_unc)
                    ev["abundance"] = dec.enc(at.abundance) if a else {"k": "none"}
                    if a:
                        ev["abundance_unc"] = dec.enc(at._abundance_unc)
                    if not variant & 1:
                        ev["density"] = dec.enc(at.density)
                    ev["number_density"] = dec.enc(at.number_density)
                    ev["interatomic_distance"] = dec.enc(at.interatomic_distance)
                    # the same through the module functions
                    ev["fn"] = {"mass": dec.enc(mass.mass(at)), "density": dec.enc(density.density(at)),
                                "number_density": dec.enc(density.number_density(at)),
                                "interatomic_distance": dec.enc(density.interatomic_distance(at))}
                    if variant & 1:
                        ev["fn"]["density"] = ev["density"]
                except Exception as e:
                    ev["exc"] = "%s: %s" % (type(e).__name__, str(e)[:80])
                out.append(ev)
    return out
