"""C06 observations in a forked interpreter: what the library serves for each element / isotope."""
from . import dec


def serve(arg):
    import periodictable
    from periodictable import core, mass, density
    tabs = {"public": periodictable.elements}
    variant = arg.get("variant", 0)

    def make_private():
        t = core.PeriodicTable("T1")
        if variant & 2:           # the two loaders in the other order
            density.init(t)
            mass.init(t)
        else:
            mass.init(t)
            density.init(t)
        return t
    late_private = bool(variant & 4) and arg.get("private")     # the private table is only created after the public one was served
    if arg.get("private") and not late_private:
        tabs["T1"] = make_private()
    out = []
    order = sorted(tabs.items(), reverse=True) + ([("T1", None)] if late_private else [])
    for T, t in order:
        if t is None:
            t = make_private()
        for z in arg["zs"]:
            el = t[z]
            ats = [(el, 0)] + [(iso, iso.isotope) for iso in el]
            if variant & 1:       # the first thing this interpreter is asked is the density of an isotope
                ats = ats[1:] + ats[:1]
            for at, a in ats:
                ev = {"ev": "serve", "T": T, "z": z, "a": a}
                try:
                    if variant & 1:
                        ev["density"] = dec.enc(at.density)
                    ev["mass"] = dec.enc(at.mass)
                    ev["mass_unc"] = dec.enc(at._mass_unc)
                    ev["abundance"] = dec.enc(at.abundance) if a else {"k": "none"}
                    if not variant & 1:
                        ev["density"] = dec.enc(at.density)
                    ev["number_density"] = dec.enc(at.number_density)
                    ev["interatomic_distance"] = dec.enc(at.interatomic_distance)
                except Exception as e:
                    ev["exc"] = "%s: %s" % (type(e).__name__, str(e)[:80])
                out.append(ev)
    return out
