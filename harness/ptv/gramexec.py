"""Parse formula strings in a forked interpreter and report what the code made of them."""


def _atom_key(a):
    from periodictable import core
    q = a.charge if core.ision(a) else 0
    base = a.element if core.ision(a) else a
    A = base.isotope if core.isisotope(base) else 0
    el = base.element if core.isisotope(base) else base
    return [a.number, A, q, el.table]


def describe(f):
    out = {"atoms": [_atom_key(a) + [c] for a, c in f.atoms.items()]}
    try:
        out["charge"] = f.charge
    except Exception as e:
        out["charge_exc"] = type(e).__name__
    out["density"] = f.density
    # masses of the atoms as written, and of the same atoms with every isotope replaced by its natural element (ion
    # charge kept), straight from the atoms: what an '@<d>n' tag is defined by
    from periodictable import core
    mw = mn = 0.0
    try:
        for a, c in f.atoms.items():
            q = a.charge if core.ision(a) else 0
            base = a.element if core.ision(a) else a
            el = base.element if core.isisotope(base) else base
            nat = el.ion[q] if q else el
            mw += c * a.mass
            mn += c * nat.mass
        out["mass_written"], out["mass_natural"] = mw, mn
    except Exception as e:
        out["mass_exc"] = type(e).__name__
    try:
        out["natural_density"] = None if f.density is None else f.natural_density
    except Exception as e:
        out["natural_density_exc"] = type(e).__name__
    return out


def run_batch(arg):
    import periodictable
    from periodictable import core, mass, density
    tabs = {"public": None}
    if arg.get("private"):
        t = core.PeriodicTable("T1")
        mass.init(t)
        density.init(t)
        tabs["T1"] = t
        # a private table whose owner redefined the valid charges of three elements after building it
        t2 = core.PeriodicTable("T2")
        mass.init(t2)
        density.init(t2)
        t2.Fe.ions = (2, 3)                 # 6+ and the uncommon ones removed
        t2.Ne.ions = (1,)                   # a charge for an element that had none
        t2.Na.ions = tuple(sorted((set(t2.Na.ions) | {2}) - {1}))
        tabs["T2"] = t2
    out = []
    for s, T in arg["items"]:
        try:
            f = periodictable.formula(s, table=tabs[T])
        except Exception as e:
            # a refused string is refused again: the answer does not depend on what was asked before
            r = {"exc": type(e).__name__}
            try:
                g = periodictable.formula(s, table=tabs[T])
                r["again"] = "accepted"
                r["str"] = str(g)
            except Exception:
                r["again"] = "exc"
            out.append(r)
            continue
        if not isinstance(f, periodictable.formulas.Formula):
            out.append({"exc": "NotAFormula"})
            continue
        if len(out) % 2:
            # the caller edits the object it was given (density and name are settable) and asks the same string again:
            # what a string denotes does not depend on what became of an earlier answer
            try:
                f.density = 9.87654 if f.density is None else f.density * 1.75
                f.name = "edited by its owner"
                f = periodictable.formula(s, table=tabs[T])
            except Exception as e:
                out.append({"exc": type(e).__name__, "again": "exc", "second_request": True})
                continue
        d = describe(f)
        d["str"] = str(f)
        out.append(d)
    return out
