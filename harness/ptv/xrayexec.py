"""C05 observations in a forked interpreter."""
from . import dec
from .formexec import build, key


def _xparts(f, E):
    import numpy as np
    ps, anynan = [], False
    for at, n in f.atoms.items():
        f1, f2 = at.xray.scattering_factors(energy=E)
        if f1 is None:
            return None, True
        if np.isnan(f1) or np.isnan(f2):
            anynan = True
        ps.append({"n": dec.to_dec(n), "m": dec.to_dec(at.mass),
                   "f1": dec.to_dec(0.0 if np.isnan(f1) else float(f1)), "f2": dec.to_dec(0.0 if np.isnan(f2) else float(f2))})
    return ps, anynan


def observe(arg):
    import numpy as np
    import periodictable as P
    from periodictable import xsf
    out = []
    for t in arg["items"]:
        try:
            k = t["kind"]
            if k == "sf":
                el = P.elements[t["z"]]
                if t.get("via") == "ion" and el.ions:
                    el = el.ion[el.ions[0]]
                elif t.get("via") == "iso" and el.isotopes:
                    el = el[el.isotopes[0]]
                elif isinstance(t.get("via"), list):         # [A, charge]: the ion of an isotope (D{+}, T{+}, Fe[56]{2+}, ...)
                    el = el[t["via"][0]].ion[t["via"][1]]
                Es = t["E"]
                if t.get("wavelength"):
                    lam = [float(xsf.xray_wavelength(E)) for E in Es]
                    res = el.xray.scattering_factors(wavelength=np.array(lam) if t.get("vector") else lam[0])
                else:
                    lam = None
                    res = el.xray.scattering_factors(energy=np.array(Es) if t.get("vector") else Es[0])
                for i, E in enumerate(Es if t.get("vector") else Es[:1]):
                    ev = {"ev": "sf", "id": "%s#%d" % (t["id"], i), "z": t["z"], "E": dec.to_dec(E)}
                    if lam is not None:
                        ev["lam"] = dec.to_dec(lam[i])
                    if res[0] is None:
                        ev["f1"], ev["f2"] = {"k": "none"}, {"k": "none"}
                    else:
                        pick = (lambda x: x[i]) if t.get("vector") else (lambda x: x)
                        ev["f1"], ev["f2"] = dec.enc(pick(res[0])), dec.enc(pick(res[1]))
                    out.append(ev)
            elif k == "sld":
                f = build(t["compound"])
                g = P.formula(f, density=t["density"])
                E = t["E"]
                lam = float(xsf.xray_wavelength(E))
                ps, anynan = _xparts(g, E)
                if ps is None:
                    continue
                if t.get("by") == "wavelength":
                    r = P.xray_sld(g, density=g.density, wavelength=lam)
                else:
                    r = P.xray_sld(g, density=g.density, energy=E)
                ev = {"ev": "sld", "id": t["id"], "ps": ps, "rho": dec.to_dec(g.density), "E": dec.to_dec(E), "lam": dec.to_dec(lam),
                      "rho_re": dec.enc(r[0]), "rho_im": dec.enc(r[1]), "anynan": anynan}
                if not anynan:
                    n = xsf.index_of_refraction(g, density=g.density, energy=E)
                    ev["n_re"], ev["n_im"] = dec.enc(complex(n).real), dec.enc(complex(n).imag)
                out.append(ev)
            elif k == "elsld":
                el = P.elements[t["z"]]
                if t.get("edited"):
                    # an element of a private table whose owner changes its density after the SLD was asked once
                    from .formexec import _tab
                    from periodictable import xsf as _x
                    T1 = _tab("T1")
                    if "xray" not in T1.properties:
                        _x.init(T1)
                    el = T1[t["z"]]
                    if el.density is None:
                        continue
                    el.xray.sld(energy=t["E"])
                    el._density = el._density * 2.5
                E = t["E"]
                r = el.xray.sld(energy=E)
                if r[0] is None or el.density is None:
                    continue
                ps, anynan = _xparts(P.formula(el), E)
                out.append({"ev": "sld", "id": t["id"], "ps": ps, "rho": dec.to_dec(el.density), "E": dec.to_dec(E),
                            "rho_re": dec.enc(r[0]), "rho_im": dec.enc(r[1]), "anynan": anynan})
            elif k == "rel":
                f = build(t["compound"])
                g = P.formula(f, density=t["density"])
                E = t["E"]
                a = P.xray_sld(g, density=g.density, energy=E)
                ev = {"ev": "rel", "id": t["id"], "rel": t["rel"], "a": {"re": dec.enc(a[0]), "im": dec.enc(a[1])}}
                if t["rel"] == "energy":
                    b = P.xray_sld(g, density=g.density, wavelength=float(xsf.xray_wavelength(E)))
                elif t["rel"] == "density":
                    b = P.xray_sld(g, density=g.density * t["k"], energy=E)
                    ev["k"] = dec.to_dec(t["k"])
                elif t["rel"] == "vector":
                    Es = t["vector"]
                    bb = P.xray_sld(g, density=g.density, energy=np.array(Es))
                    a = P.xray_sld(g, density=g.density, energy=Es[t["index"]])
                    ev["a"] = {"re": dec.enc(a[0]), "im": dec.enc(a[1])}
                    b = (bb[0][t["index"]], bb[1][t["index"]])
                elif t["rel"] == "isotope":
                    h = build(t["variant"])
                    nd = t["density"]
                    a = P.xray_sld(f, natural_density=nd, energy=E)
                    b = P.xray_sld(h, natural_density=nd, energy=E)
                    ev["a"] = {"re": dec.enc(a[0]), "im": dec.enc(a[1])}
                ev["b"] = {"re": dec.enc(b[0]), "im": dec.enc(b[1])}
                out.append(ev)
            elif k == "refl":
                f = build(t["compound"])
                r = xsf.mirror_reflectivity(f, density=t["density"], energy=np.array(t["energies"]), angle=np.array(t["angles"]),
                                            roughness=t.get("roughness", 0))
                out.append({"ev": "refl", "id": t["id"], "r": [dec.enc(x) for x in np.asarray(r).ravel().tolist()]})
            elif k == "f0":
                from .formexec import atom
                z, a, q = t["atom"]
                at = atom(z, a, q)
                try:
                    v0 = at.xray.f0(0.0)
                except KeyError:
                    continue            # no coefficients for this ion: outside the clause
                # the same Q grid (one float array) used for two calls: the caller's array is not rescaled in place
                Qarr = np.array([float(t["Q"]), 1.0, 24 * np.pi * 1.0001])
                keepQ = Qarr.copy()
                at.xray.f0(Qarr)
                second = at.xray.f0(Qarr)
                out.append({"ev": "f0", "id": t["id"], "z": z, "q": q, "at0": dec.enc(float(v0)),
                            "again": dec.enc(float(second[0])), "qkept": bool((Qarr == keepQ).all()),
                            "beyond": dec.enc(float(at.xray.f0(24 * np.pi * 1.0001))),
                            "edge": dec.enc(float(at.xray.f0(24 * np.pi))),
                            "inside": dec.enc(float(at.xray.f0(t["Q"])))})
        except Exception as e:
            import traceback
            out.append({"ev": "harness_exc", "id": t["id"], "exc": "%s: %s" % (type(e).__name__, str(e)[:150]),
                        "tb": traceback.format_exc()[-300:]})
    return out
