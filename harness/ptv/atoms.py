"""Concrete atoms of the table (from the raw tables) for instantiating spec placeholders."""
import random
from . import rawtables


class Atom(object):
    __slots__ = ("sym", "z", "a", "q", "alias")

    def __init__(self, sym, z, a=0, q=0, alias=False):
        self.sym, self.z, self.a, self.q, self.alias = sym, z, a, q, alias

    def key(self):
        return (self.z, self.a, self.q)

    def render(self, rng=None, one="omit"):
        s = self.sym
        if self.a and not self.alias:
            s += "[%d]" % self.a
        if self.q:
            n = abs(self.q)
            sign = "+" if self.q > 0 else "-"
            if n == 1:
                digits = "" if (rng is None or rng.random() < 0.5) else "1"
            else:
                digits = str(n)
            s += "{%s%s}" % (digits, sign)
        return s


def universe(rng, iso_ion_sample=400):
    eb = rawtables.element_base()
    isos = rawtables.isotope_list()
    els, isoL, ionL, isoion = [], [], [], []
    for z, (name, sym, ions) in sorted(eb.items()):
        if z == 0:
            continue          # the neutron 'n' is lower case: the grammar cannot name it
        els.append(Atom(sym, z))
        for a in isos.get(z, []):
            isoL.append(Atom(sym, z, a))
        for q in ions:
            ionL.append(Atom(sym, z, 0, q))
    aliases = [Atom("D", 1, 2, 0, True), Atom("T", 1, 3, 0, True)]
    for q in eb[1][2]:
        aliases.append(Atom("D", 1, 2, q, True))
        aliases.append(Atom("T", 1, 3, q, True))
    allii = [(a, q) for a in isoL for q in eb[a.z][2]]
    for a, q in rng.sample(allii, min(iso_ion_sample, len(allii))):
        isoion.append(Atom(a.sym, a.z, a.a, q))
    return {"el": els, "iso": isoL, "ion": ionL, "isoion": isoion, "alias": aliases,
            "eb": eb, "isos": isos}


class Rotor(object):
    """Hands out atoms so that every atom of every kind is used before any is reused."""

    def __init__(self, uni, rng):
        self.rng = rng
        self.pools = {}
        for k in ("el", "iso", "ion", "isoion", "alias"):
            p = list(uni[k])
            rng.shuffle(p)
            self.pools[k] = [p, 0]
        self.weights = [("el", 3), ("iso", 8), ("ion", 3), ("isoion", 2), ("alias", 1)]
        self.used = set()

    def next(self, kind=None):
        if kind is None:
            tot = sum(w for _, w in self.weights)
            r = self.rng.random() * tot
            for k, w in self.weights:
                r -= w
                if r < 0:
                    kind = k
                    break
            else:
                kind = "el"
        p = self.pools[kind]
        a = p[0][p[1] % len(p[0])]
        p[1] += 1
        self.used.add((kind, a.sym, a.a, a.q))
        return a

    def distinct(self, n):
        out, keys = [], set()
        guard = 0
        while len(out) < n and guard < 100:
            guard += 1
            a = self.next()
            if a.key() in keys:
                continue
            keys.add(a.key())
            out.append(a)
        return out
