"""C08, spec -> code: replay one PTCore behaviour (printed by MC_CoreSim) in a fresh interpreter.

The model's small universe is bound to the real tables by a seeded mapping: model element 1 is
hydrogen (the constructor's D = H[2]); model element 8 is a random real element that has isotopes
and ions; its model isotope 16 is a random real isotope, 99 a mass number the mass table does not
have; model charges map to real valid charges, 9 to an invalid one.  After every call the outcome
(found / created / raise / ok) and the *projected heap* of the real tables -- the identity caches
PeriodicTable._element, Element._isotopes and IonSet.ionset restricted to the mapped universe --
are compared with the model's; object identity is followed across the whole behaviour (an object
seen for a key must stay the object for that key).
"""
import copy
import gc
import pickle
import random

PUB = "public"


def replay(arg):
    import periodictable
    from periodictable import core, mass
    rng = random.Random(arg["seed"])
    hist = arg["hist"]
    shape = arg["shape"]           # z -> {"sym","name","ions","isos"} from the raw tables
    cands = [int(z) for z, v in shape.items() if int(z) > 1 and len(v["isos"]) >= 1 and v["ions"]]
    Z8 = arg.get("z8") or rng.choice(sorted(cands))
    sh8 = shape[str(Z8)]
    a16 = rng.choice(sh8["isos"])
    a99 = max(sh8["isos"]) + rng.choice([1, 2, 7])
    q8 = rng.choice(sh8["ions"])
    q1 = 1
    badq = rng.choice([q for q in (9, -9, 0, max(sh8["ions"]) + 1, min(sh8["ions"]) - 1) if q not in sh8["ions"] and q not in shape["1"]["ions"]])
    zmap = {1: 1, 8: Z8, -1: -1, 999: rng.choice([999, 119, 150])}
    amap = {1: {0: 0, 1: 1, 2: 2}, 8: {0: 0, 16: a16, 99: a99}}
    qmap = {1: {0: 0, 1: q1, -2: badq if -2 not in shape["1"]["ions"] else 8, 9: badq},
            8: {0: 0, -2: q8, 1: (1 if 1 not in sh8["ions"] else badq), 9: badq}}
    # a model charge that is invalid for the model element must be invalid for the real one
    for mz, valid in ((1, {1}), (8, {-2})):
        real_ions = set(shape[str(zmap[mz])]["ions"])
        for mq, rq in list(qmap[mz].items()):
            if mq not in valid and rq in real_ions:
                qmap[mz][mq] = badq
    binding = {"Z8": Z8, "a16": a16, "a99": a99, "q8": q8, "badq": badq}

    def ra(mz, ma):
        if ma == 777:
            return 777
        return amap.get(mz, {}).get(ma, 700 + ma)      # an isotope number of the other element: not an isotope here

    # the private table's real name: any hashable will do as a name, also a falsy one
    realname = {PUB: PUB, "T1": rng.choice(["T1", "", 0, "my table", "T1"]), "T2": rng.choice(["T2", "second table", 2, ("a", "tuple")])}
    binding["table_name"] = repr(realname["T1"])
    binding["table2_name"] = repr(realname["T2"])
    tables = {PUB: periodictable.elements}         # the tables the caller still holds (model variable `held`)
    elems = {PUB: dict((mz, periodictable.elements[zmap[mz]]) for mz in (1, 8))}   # kept element objects per table
    seen = {}        # model key (tab, z, a, q) -> real object
    owner = {}       # id(real object) -> model key
    keep = []        # keep every object alive so id() stays unique

    blackbox = [False]     # set when the identity caches are not laid out as the property's anchors say

    def project():
        """real heap restricted to the mapped universe: {(tab, mz, ma, mq): object}; unmapped ions/isotopes of the
        mapped elements are reported under ('?', ...) keys.  If the caches cannot be read (another layout), the replay
        goes on as a black box: the heap is what earlier calls returned, and only outcomes and object stability are
        compared."""
        if blackbox[0]:
            return dict(seen)
        try:
            return _project()
        except AttributeError:
            blackbox[0] = True
            return dict(seen)

    def _project():
        out = {}
        for T in elems:
            for mz in (1, 8):
                el = elems[T][mz]
                out[(T, mz, 0, 0)] = el
                inv_a = dict((v, k) for k, v in amap[mz].items() if k)
                inv_q = {}
                for k, v in qmap[mz].items():
                    if k in ({1} if mz == 1 else {-2}):
                        inv_q[v] = k
                bases = [(0, el)]
                for a_real, iso in el._isotopes.items():
                    if a_real in inv_a:
                        out[(T, mz, inv_a[a_real], 0)] = iso
                        bases.append((inv_a[a_real], iso))
                    elif a_real not in shape[str(zmap[mz])]["isos"] and not (zmap[mz] == 1 and a_real in (2, 3)):
                        out[("?iso", T, mz, a_real)] = iso
                for ma, base in bases:
                    ionset = base.__dict__.get("ion")
                    cache = ionset.ionset if ionset is not None else {}
                    for q_real, ion in cache.items():
                        if q_real in inv_q:
                            out[(T, mz, ma, inv_q[q_real])] = ion
                        else:
                            out[("?ion", T, mz, ma, q_real)] = ion
        return out

    def fetch(key):
        T, mz, ma, mq = key
        if blackbox[0]:
            if key in seen:
                return seen[key]
            o = elems[T][mz]              # through the public routes
            if ma:
                o = o[ra(mz, ma)]
            if mq:
                o = o.ion[qmap[mz][mq]]
            return o
        o = elems[T][mz]
        if ma:
            o = o._isotopes[ra(mz, ma)]
        if mq:
            o = o.ion.ionset[qmap[mz][mq]]
        return o

    def base_lookup(t, mz, ma):
        z = zmap[mz]
        a = ra(mz, ma) if ma else 0
        sh = shape.get(str(z))
        routes = []
        if ma == 0:
            routes.append(("t[z]", lambda: t[z]))
            if sh:
                routes += [("symbol", lambda: t.symbol(sh["sym"])), ("name", lambda: t.name(sh["name"])),
                           ("attr", lambda: getattr(t, sh["sym"])), ("isotope(sym)", lambda: t.isotope(sh["sym"]))]
                if t is periodictable.elements:
                    routes.append(("module", lambda: getattr(periodictable, sh["sym"])))
        else:
            routes.append(("t[z][a]", lambda: t[z][a]))
            if sh:
                routes.append(("isotope(a-sym)", lambda: t.isotope("%d-%s" % (a, sh["sym"]))))
                routes.append(("symbol[a]", lambda: t.symbol(sh["sym"])[a]))
                if z == 1 and a == 2:
                    routes += [("D", lambda: t.D), ("symbol(D)", lambda: t.symbol("D")), ("name(deuterium)", lambda: t.name("deuterium"))]
        return rng.choice(routes)

    problems = []
    steps = []
    # initial state
    h0 = project()
    for k, o in h0.items():
        seen[k] = o
        owner[id(o)] = k
        keep.append(o)
    exp0 = set((o["tab"], o["z"], o["a"], o["q"]) for o in hist[0]["heap"])
    if set(h0) != exp0 and not blackbox[0]:
        problems.append({"step": 0, "clause": "InitialHeap", "got": sorted(map(str, set(h0) ^ exp0))})
    for i, st in enumerate(hist[1:], 1):
        act, want = st["act"], st["last"]
        op, T, mz, ma, mq = act["op"], act["T"], act["z"], act["a"], act["q"]
        route = op
        res = None
        try:
            if op == "NewTable":
                tables[T] = core.PeriodicTable(realname[T])
                elems[T] = dict((m, tables[T][zmap[m]]) for m in (1, 8))
                got = "ok"
            elif op == "ReloadData":
                from periodictable import density, xsf, covalent_radius, crystal_structure, magnetic_ff
                route, mod = rng.choice([("density", density), ("xsf", xsf), ("covalent_radius", covalent_radius),
                                         ("crystal_structure", crystal_structure), ("magnetic_ff", magnetic_ff)])
                mod.init(tables[T], reload=True)
                got = "ok"
            elif op == "DropTable":
                del tables[T]           # the caller keeps atoms only; the registry must keep the table alive
                gc.collect()
                got = "ok"
            elif op == "LoadMass":
                mass.init(tables[T])
                got = "ok"
            elif op == "AddIsotope":
                before = set(elems[T][mz].isotopes)
                res = elems[T][mz].add_isotope(ra(mz, ma))
                got = "found" if ra(mz, ma) in before else "created"
            elif op == "LookupBase":
                route, fn = base_lookup(tables[T], mz, ma)
                res = fn()
                got = "found"
            elif op == "GetIon":
                base = elems[T][mz]
                if ma:
                    base = base[ra(mz, ma)]
                had = ((T, mz, ma, mq) in seen) if blackbox[0] else (qmap[mz][mq] in base.ion.ionset)
                res = base.ion[qmap[mz][mq]]
                got = "found" if had else "created"
            elif op == "Restore":
                src = fetch((T, mz, ma, mq))
                route = rng.choice(["pickle", "pickle2", "deepcopy", "copy"])
                if route == "pickle":
                    res = pickle.loads(pickle.dumps(src))
                elif route == "pickle2":
                    res = pickle.loads(pickle.dumps(src, protocol=2))
                elif route == "deepcopy":
                    res = copy.deepcopy(src)
                else:
                    res = copy.copy(src)
                got = "found"
            elif op == "ChangeTable":
                src = fetch((act["sT"], mz, ma, mq))
                base = elems[T][mz]
                had = True
                if blackbox[0]:
                    had = (T, mz, ma, mq) in seen or not mq
                else:
                    if ma:
                        base = base._isotopes.get(ra(mz, ma))
                    if mq and base is not None:
                        ionset = base.__dict__.get("ion")
                        had = ionset is not None and qmap[mz][mq] in ionset.ionset
                res = core.change_table(src, tables[T])
                got = "found" if had else "created"
            else:
                raise RuntimeError("unknown op " + op)
        except Exception as e:
            got = "raise"
            res = None
            exc = type(e).__name__
        else:
            exc = None
        fn = None               # (the route closures name the table)
        heap = project()
        clause = None
        exp = set((o["tab"], o["z"], o["a"], o["q"]) for o in st["heap"])
        dup = [o for o in st["heap"] if o["gen"] != 0]
        if blackbox[0] and res is not None and want in ("found", "created"):
            key = (T, mz, ma, mq)
            if key in seen and seen[key] is not res:
                clause = "ObjectReplaced"
            heap[key] = res
        if clause is not None:
            pass
        elif got != want:
            clause = "Outcome"
        elif set(heap) != exp and not blackbox[0]:
            clause = "HeapKeys"
        else:
            for k, o in heap.items():
                if k in seen:
                    if seen[k] is not o:
                        clause = "ObjectReplaced"
                        break
                elif id(o) in owner:
                    clause = "OneObjectTwoKeys"
                    break
            if clause is None and res is not None and want in ("found", "created") and not blackbox[0]:
                # the returned object is the heap object of the key the call denotes
                key = (T, mz, ma, mq)
                if heap.get(key) is not res:
                    clause = "ReturnedObjectIsTheCachedOne"
                elif want == "created" and key in seen:
                    clause = "CreatedButExisted"
                elif want == "found" and key not in seen:
                    clause = "FoundButNew"
        for k, o in heap.items():
            if k not in seen:
                seen[k] = o
                owner[id(o)] = k
                keep.append(o)
        if res is not None:
            keep.append(res)
        steps.append({"op": op, "route": route, "want": want, "got": got, "exc": exc})
        if clause:
            problems.append({"step": i, "clause": clause, "op": op, "route": route, "want": want, "got": got, "exc": exc,
                             "act": act, "binding": binding,
                             "heap_diff": sorted(map(str, set(heap) ^ exp))[:6]})
            break
    return {"problems": problems, "steps": steps, "binding": binding, "objects": len(seen), "blackbox": blackbox[0]}
