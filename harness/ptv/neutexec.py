"""Neutron calculator observations (C03, C04, C16, C17) in a forked interpreter."""
from . import dec
from .formexec import build, key, _tab

F7 = ["re", "im", "inc", "coh", "abs", "incxs", "pen"]


def parts_of(f):
    ps = []
    for at, n in f.atoms.items():
        p = {"n": dec.to_dec(n), "m": dec.to_dec(at.mass), "atom": list(key(at)), "mnat": dec.to_dec(_natural(at).mass)}
        nt = at.neutron
        if not nt.has_sld():
            p["kind"] = "nodata"
        elif nt.nsf_table is not None:
            lam, xs = nt.nsf_table
            p["kind"] = "table"
            p["nodes"] = [{"lam": dec.to_dec(float(a)), "re": dec.to_dec(float(b.real)), "im": dec.to_dec(float(b.imag))}
                          for a, b in zip(lam, xs)]
        else:
            p["kind"] = "const"
            p["b_re"] = dec.to_dec(nt.b_c_complex.real)
            p["b_im"] = dec.to_dec(nt.b_c_complex.imag)
            p["total"] = dec.to_dec(nt.total) if nt.total is not None else dec.to_dec(0)
            if nt.total is None:
                p["kind"] = "nototal"
        ps.append(p)
    return ps


def _natural(at):
    """the atom of natural abundance with the same charge (table lookup, not Formula.natural_mass_ratio)"""
    from .formexec import _owner_name
    z, a, q = key(at)
    el = _tab(_owner_name(at))[z]
    return el.ion[q] if q else el


def out7(res, i=None):
    if res is None or res[0] is None:
        return {"none": True}
    sld, xs, pen = res
    vals = list(sld) + list(xs) + [pen]
    o = {}
    for f, v in zip(F7, vals):
        try:
            import numpy as np
            if i is not None and np.ndim(v) > 0:
                v = v[i]
        except Exception:
            pass
        o[f] = dec.enc(v)
    return o


def observe(arg):
    import numpy as np
    import periodictable as P
    from periodictable import nsf
    out = []
    for t in arg["items"]:
        T = t.get("T")
        if T and "neutron" not in _tab(T).properties:
            nsf.init(_tab(T))          # a private table has neutron data only after nsf.init (T2: customised masses / densities)
        try:
            kind = t["kind"]
            if kind == "scat":
                out += _scat(t, T)
            elif kind == "atom":
                out += _atom(t, T)
            elif kind == "rel":
                out += _rel(t, T)
            elif kind == "conv":
                E, lam, v = t["E"], t["lam"], t["v"]
                # the converters leave the arrays they are given alone
                Earr, larr = np.array([E, 2.0 * E, 0.5 * E]), np.array([lam, 2.0 * lam])
                keepE, keepl = Earr.copy(), larr.copy()
                w1 = nsf.neutron_wavelength(Earr)
                e1 = nsf.neutron_energy(larr)
                kept = bool((Earr == keepE).all() and (larr == keepl).all())
                out.append({"ev": "conv", "id": t["id"], "E": dec.to_dec(E), "lam": dec.to_dec(lam), "v": dec.to_dec(v),
                            "lam_of_E": dec.to_dec(float(nsf.neutron_wavelength(E))),
                            "E_back": dec.to_dec(float(nsf.neutron_energy(nsf.neutron_wavelength(E)))),
                            "E_of_lam": dec.to_dec(float(nsf.neutron_energy(lam))),
                            "lam_of_v": dec.to_dec(float(nsf.neutron_wavelength_from_velocity(v))),
                            "args_kept": kept, "lam_of_E_vec": dec.to_dec(float(w1[0])), "E_of_lam_vec": dec.to_dec(float(e1[0]))})
                if float(E).is_integer() and float(lam).is_integer() and float(v).is_integer():
                    # whole numbers arrive as ints, integer arrays and lists of ints as well
                    Ei, li, vi = int(E), int(lam), int(v)
                    out[-1]["ints"] = {
                        "lam_of_E": [dec.to_dec(float(nsf.neutron_wavelength(Ei))), dec.to_dec(float(nsf.neutron_wavelength(np.array([Ei, 2 * Ei]))[0])),
                                     dec.to_dec(float(nsf.neutron_wavelength(np.int64(Ei))))],
                        "E_of_lam": [dec.to_dec(float(nsf.neutron_energy(li))), dec.to_dec(float(nsf.neutron_energy(np.array([li, 2 * li]))[0])),
                                     dec.to_dec(float(nsf.neutron_energy(np.int32(li))))],
                        "lam_of_v": [dec.to_dec(float(nsf.neutron_wavelength_from_velocity(vi))),
                                     dec.to_dec(float(nsf.neutron_wavelength_from_velocity(np.array([vi, 2 * vi]))[0]))]}
            elif kind == "anchor":
                out.append({"ev": "anchor", "id": t["id"],
                            "lam_of_2200": dec.to_dec(float(nsf.neutron_wavelength_from_velocity(2200.0))),
                            "E_of_1798": dec.to_dec(float(nsf.neutron_energy(1.798))),
                            "lam_of_253": dec.to_dec(float(nsf.neutron_wavelength(25.3)))})
            elif kind == "comp":
                out += _comp(t, T)
            elif kind == "d2o":
                out += _d2o(t, T)
            elif kind == "fasta_tables":
                out += _fasta_tables(t)
        except Exception as e:
            import traceback
            out.append({"ev": "harness_exc", "id": t["id"], "exc": "%s: %s" % (type(e).__name__, str(e)[:200]),
                        "tb": traceback.format_exc()[-400:]})
    return out


def _formula(t, T):
    import periodictable as P
    f = build(t["compound"], T)
    kw = {}
    if "density" in t:
        kw["density"] = t["density"]
    if "natural_density" in t:
        kw["natural_density"] = t["natural_density"]
    g = P.formula(f, **kw)
    return g, kw


def _wl(t):
    """-> (kwargs for the call, list of (lam, E or None))"""
    import numpy as np
    from periodictable import nsf
    if "energy" in t:
        E = t["energy"]
        Es = E if isinstance(E, list) else [E]
        return {"energy": np.array(E) if isinstance(E, list) else E}, [(float(nsf.neutron_wavelength(x)), x) for x in Es], isinstance(E, list)
    w = t["wavelength"]
    ws = w if isinstance(w, list) else [w]
    arg = w
    if isinstance(w, list) and t.get("wform", "array") == "array":
        arg = np.array(w)          # dtype follows the values: a list of ints gives an integer array
    elif isinstance(w, list) and t["wform"] == "tuple":
        arg = tuple(w)
    return {"wavelength": arg}, [(x, None) for x in ws], isinstance(w, list)


def _scat(t, T):
    import periodictable as P
    g, kw = _formula(t, T)
    wkw, lams, vec = _wl(t)
    if "wavelength_ignored" in t:
        wkw = dict(wkw, wavelength=t["wavelength_ignored"])      # "If energy is specified then wavelength is ignored"
    via = t.get("via", "formula")
    text = None
    argkept = None
    if via == "sld-string-table":
        # the compound as text, read with table=T by the calculator itself (neutron_sld route for the SLDs)
        text = str(g)
        g = P.formula(text, table=_tab(T) if T else None, **kw)
    ps = parts_of(g)
    try:
        if via == "sld-string-table":
            tkw = dict(dict(kw, **wkw), table=_tab(T) if T else None)
            full = P.neutron_scattering(text, **tkw)
            sld = P.neutron_sld(text, **tkw)
            res = (sld, full[1], full[2]) if full[0] is not None else full
        elif via == "formula":        # the density is resolved by formula(), the calculator gets density=
            res = P.neutron_scattering(g, density=g.density, **wkw)
        elif via == "carried":      # a Formula that already carries another density; the keyword must win
            f0 = P.formula(build(t["compound"], T), density=t["carried"])
            res = P.neutron_scattering(f0, **dict(kw, **wkw))
            argkept = f0.density == t["carried"]        # ... and the caller's object keeps its own density
        elif via == "carried-own":  # a Formula that carries the density, no keyword
            res = P.neutron_scattering(g, **wkw)
        else:                       # "kw": Formula without density, density / natural_density as keyword of the calculator
            res = P.neutron_scattering(build(t["compound"], T), **dict(kw, **wkw))
    except Exception as e:
        return [{"ev": "harness_exc", "id": t["id"], "exc": "neutron_scattering raised %s: %s" % (type(e).__name__, str(e)[:100])}]
    evs = []
    for i, (lam, E) in enumerate(lams):
        ev = {"ev": "scat", "id": "%s#%d" % (t["id"], i) if vec else t["id"], "ps": ps, "lam": dec.to_dec(lam),
              "out": out7(res, i if vec else None)}
        if argkept is not None:
            ev["argkept"] = bool(argkept)
        if "natural_density" in t:
            ev["nd"] = dec.to_dec(t["natural_density"])      # the specification converts it with the natural masses
            ev["rho"] = dec.to_dec(0)
        elif "density" in t:
            ev["rho"] = dec.to_dec(t["density"])
        else:
            ev["rho"] = dec.to_dec(g.density if g.density is not None else 0)
        if E is not None:
            ev["E"] = dec.to_dec(E)
        evs.append(ev)
    return evs


def _atom(t, T):
    from .formexec import atom as getatom
    import periodictable as P
    z, a, q = t["atom"]
    at = getatom(z, a, q, T)
    lam = t["wavelength"]
    res = at.neutron.scattering(wavelength=lam)
    f = P.formula(at)
    ps = parts_of(f)
    rho = at.density
    return [{"ev": "scat", "id": t["id"], "ps": ps, "rho": dec.to_dec(rho if rho is not None else 0), "lam": dec.to_dec(lam),
             "out": out7(res) if rho is not None or res[0] is None else out7(res)}]


def _rel(t, T):
    import numpy as np
    import periodictable as P
    rel = t["rel"]
    g, kw = _formula(t, T)
    lam = t["wavelength"]
    how = t.get("how", "density")

    def call(obj, k=1.0, **wkw):
        """the calculator with the task's density given in the task's way, scaled by k"""
        if how == "string-at" and all(at.number > 0 for at in g.atoms):
            # the compound as text that carries a density of its own: the density= keyword of the calculator wins
            from .formexec import _tab
            return P.neutron_scattering("%s@%r" % (str(obj), t.get("carried", 3.3)), density=g.density * k,
                                        table=(_tab(T) if T else None), **wkw)
        if how in ("density", "string-at"):
            return P.neutron_scattering(obj, density=g.density * k, **wkw)
        if how == "natural":            # natural_density= on a formula without density
            return P.neutron_scattering(obj, natural_density=t["density"] * k, **wkw)
        # natural_density= on a Formula that carries some other density: the keyword wins
        return P.neutron_scattering(P.formula(obj, density=t.get("carried", 3.3)), natural_density=t["density"] * k, **wkw)
    g0 = g if how in ("density", "string-at") else build(t["compound"], T)
    a = call(g0, wavelength=lam)
    ev = {"ev": "rel", "id": t["id"], "rel": rel, "a": out7(a)}
    if rel == "density":
        k = t["k"]
        b = call(g0, k, wavelength=lam)
        ev["k"] = dec.to_dec(k)
        ev["again"] = out7(call(g0, wavelength=lam))       # the first call repeated after the scaled one
    elif rel == "cellmul":
        # k * F of a Formula that carries its density: the same material, whatever k (no density keyword at all)
        a = P.neutron_scattering(g, wavelength=lam)
        ev["a"] = out7(a)
        b = P.neutron_scattering(t["k"] * g, wavelength=lam)
    elif rel == "respell":
        # the same groups written with '+' or a blank between them
        fa, fb = P.formula(t["texts"][0]), P.formula(t["texts"][1])
        a = P.neutron_scattering(fa, density=t["density"], wavelength=lam)
        ev["a"] = out7(a)
        b = P.neutron_scattering(fb, density=t["density"], wavelength=lam)
    elif rel in ("cell", "regroup", "permute"):
        h = build(t["variant"], T)
        b = call(h, wavelength=lam)
    elif rel == "energy":
        from periodictable import nsf
        E = float(nsf.neutron_energy(lam))
        # ("If energy is specified then wavelength is ignored")
        b = call(g0, energy=E, wavelength=lam * 3.7) if t.get("both") else call(g0, energy=E)
    elif rel == "vector":
        ws = t["vector"]
        i = t["index"]
        if t.get("reuse_buffer"):
            buf = np.array([w * 1.5 + 0.1 for w in ws], dtype=float)
            call(g0, wavelength=buf)           # the buffer's earlier contents
            buf[:] = ws
            bb = call(g0, wavelength=buf)
        else:
            bb = call(g0, wavelength=np.array(ws))
        a = call(g0, wavelength=ws[i])
        ev["a"] = out7(a)
        ev["b"] = out7(bb, i)
        shape_ok = bb[0] is None or all(np.shape(x) == (len(ws),) for x in list(bb[0]) + list(bb[1]) + [bb[2]])
        if not shape_ok:
            ev["rel"] = "vector-shape"
        return [ev]
    ev["b"] = out7(b)
    return [ev]


def _comp(t, T):
    import numpy as np
    import periodictable as P
    from periodictable import nsf
    mats = [build(e, T) for e in t["materials"]]
    ws = t["weights"]
    lam = t["wavelength"]
    vec = isinstance(lam, list)
    warg = np.array(lam, dtype=float) if vec else lam
    wform = t.get("wform", "array")
    if vec and wform == "asis":
        warg = np.array(lam)               # dtype follows the values: whole numbers give an integer grid
    elif vec and wform == "list":
        warg = list(lam)
    elif vec and wform == "tuple":
        warg = tuple(lam)
    if not vec and t.get("wtype"):
        warg = getattr(np, t["wtype"])(lam)             # a numpy scalar (np.int64 from arange, np.float32 from a file)
    handed = list(mats)
    if t.get("omit_wavelength"):            # the documented default: wavelength = 1.798 Ang, a scalar
        calc = nsf.neutron_composite_sld(handed)
    else:
        calc = nsf.neutron_composite_sld(handed, wavelength=warg)
    if t.get("reuse_args"):
        # the caller goes on using its list and its wavelength buffer for something else before the first call
        handed.reverse()
        handed.append(P.formula("Gd"))
        if vec and isinstance(warg, np.ndarray) and warg.dtype.kind == "f":
            warg *= 3.0
        elif vec and isinstance(warg, list):
            warg.append(7.5)
    lams = lam if vec else [lam]
    evs = []

    def call(tag, ws, rho, warr=None):
        """one call of the calculator -> one event per wavelength (values copied out before anything else happens)"""
        res = calc(np.array(ws, dtype=float) if warr is None else warr, density=rho)
        # direct calculation on the weighted sum
        total = None
        for w, m in zip(ws, mats):
            total = (w * m) if total is None else total + (w * m)
        shape_ok = all(np.shape(x) == ((len(lam),) if vec else ()) for x in res)
        for i, L in enumerate(lams):
            if sum(ws) > 0 and rho > 0:
                d = P.neutron_sld(total, density=rho, wavelength=L)
                if d is None or d[0] is None:
                    d = (None, None, None)
            else:
                d = (0.0, 0.0, 0.0)
            pick = (lambda x: x[i]) if vec else (lambda x: x)
            evs.append({"ev": "comp", "id": "%s%s#%d" % (t["id"], tag, i), "rho": dec.to_dec(rho), "lam": dec.to_dec(L),
                        "mats": [{"w": dec.to_dec(w), "ps": parts_of(m)} for w, m in zip(ws, mats)],
                        "comp": {"re": dec.enc(pick(res[0])), "im": dec.enc(pick(res[1])), "inc": dec.enc(pick(res[2]))},
                        "direct": {"re": dec.enc(d[0]), "im": dec.enc(d[1]), "inc": dec.enc(d[2])} if d[0] is not None else {"re": {"k": "none"}, "im": {"k": "none"}, "inc": {"k": "none"}},
                        "shape_ok": bool(shape_ok)})
        return res

    def scribble(res):
        """what a caller may do with arrays it was handed: accumulate into them in place"""
        for x in res:
            if isinstance(x, np.ndarray) and x.ndim > 0:
                x += (8.72 if x.dtype.kind in "fc" else 8)       # (zeros for an integer grid may be integer zeros)
    w = np.array(ws, dtype=float)            # one weight array for the whole life of the calculator (a fit loop)
    res = call("", ws, t["density"], warr=w)
    if t.get("again"):
        # the same calculator used again after the caller has written into earlier results
        scribble(res)
        scribble(call(":z", ws, 0.0))
        scribble(call(":zz", [0.0 for _ in ws], t["density"]))
        call(":z3", ws, 0.0)
        call(":r", ws, t["density"])
        # ... changed in place between calls
        call(":w0", list(w), t["density"], warr=w)
        w[0] += 1.0
        w *= 1.5
        call(":w1", list(w), t["density"], warr=w)
    return evs


def _o2(res):
    return {"re": dec.enc(res[0]), "im": dec.enc(res[1])}


def _d2o_event(idv, mol, lam, d, v, molecule=None, table=None, energy=None, vector=0, call_with=None):
    """mol: labile Formula with density.  call_with = (formula without density, {density keyword}): the functions are
    called with the density as their own keyword instead of a density carried by the formula."""
    import periodictable as P
    from periodictable import nsf
    kw = {"wavelength": lam} if lam is not None else {}
    L = lam if lam is not None else 1.798
    if energy is not None:
        kw = {"energy": energy}
        L = float(nsf.neutron_wavelength(energy))
    ev = {"ev": "d2o", "id": idv, "ps": parts_of(mol), "rho": dec.to_dec(mol.density), "lam": dec.to_dec(L),
          "d": dec.to_dec(d), "v": dec.to_dec(v)}
    t = table if table is not None else P.elements
    ev["hpart"] = parts_of(P.formula(t.H))[0]
    ev["dpart"] = parts_of(P.formula(t.D))[0]
    H2O, D2O = P.formula("H2O@0.9982n", table=table), P.formula("D2O@0.9982n", table=table)      # (the solvent of the caller's table)
    ev["psH2O"], ev["rhoH2O"] = parts_of(H2O), dec.to_dec(H2O.density)
    ev["psD2O"], ev["rhoD2O"] = parts_of(D2O), dec.to_dec(D2O.density)
    arg, dkw = (mol, {}) if call_with is None else call_with
    kw = dict(kw, **dkw)
    f = lambda vv, dd: nsf.D2O_sld(arg, volume_fraction=vv, D2O_fraction=dd, **kw)
    ev["o10"], ev["o11"], ev["o1d"] = _o2(f(1.0, 0.0)), _o2(f(1.0, 1.0)), _o2(f(1.0, d))
    if vector:
        # a contrast series in one call: if the call returns at all, it returns one value per fraction
        import numpy as np
        try:
            r = f(1.0, np.array([0.0, 1.0, d][:vector] + [d] * max(0, vector - 3)))
        except Exception:
            r = None
        if r is not None:
            ok = all(np.shape(x) == (vector,) for x in r[:2])
            ev["vecshape_ok"] = bool(ok)
            if ok:
                ev["o10"] = _o2((r[0][0], r[1][0]))
                ev["o11"] = _o2((r[0][1], r[1][1]))
                if vector >= 3:
                    ev["o1d"] = _o2((r[0][2], r[1][2]))
    ev["o00"], ev["o01"], ev["o0d"] = _o2(f(0.0, 0.0)), _o2(f(0.0, 1.0)), _o2(f(0.0, d))
    ev["ovd"] = _o2(f(v, d))
    ds, ms = nsf.D2O_match(arg, **kw)
    ev["dstar"], ev["msld"] = dec.enc(ds), dec.enc(ms)
    import math
    if math.isfinite(ds) and abs(ds) < 1e6:
        # at the match point (which may lie outside [0, 1]) the solution SLD does not depend on the volume fraction
        ev["om0"], ev["om1"], ev["omv"] = _o2(f(0.0, ds)), _o2(f(1.0, ds)), _o2(f(v, ds))
        if molecule is not None:
            ev["molmatch"] = dec.enc(molecule.D2Osld(volume_fraction=v, D2O_fraction=ds))
    if molecule is not None:
        ev["mol"] = {"match": dec.enc(molecule.D2Omatch), "sld": dec.enc(molecule.sld), "Dsld": dec.enc(molecule.Dsld),
                     "D2Osld": dec.enc(molecule.D2Osld(volume_fraction=v, D2O_fraction=d))}
    return ev


def _d2o(t, T):
    import periodictable as P
    g, kw = _formula(t, T)
    if any(p["kind"] != "const" and p["kind"] != "table" for p in parts_of(g)):
        return []          # an atom without usable neutron data: outside the property's quantifier
    mol = None
    if t.get("molecule"):
        from periodictable import fasta
        # fasta.Molecule takes the NATURAL density; give both the same thing
        mol = fasta.Molecule("m", g, density=g.natural_density)
    call_with = None
    tab = _tab(T) if T else None
    if t.get("kwdens"):
        call_with = (build(t["compound"], T), dict(kw, **({"table": tab} if tab is not None else {})))     # density= / natural_density= as keywords
    elif t.get("text") and tab is not None:
        # the compound as text, read by D2O_sld / D2O_match themselves with table=T (a table with its own masses)
        call_with = ("%s@%r" % (str(g), g.density), {"table": tab})
    try:
        return [_d2o_event(t["id"], g, t.get("wavelength"), t["d"], t["v"], molecule=mol, energy=t.get("energy"), vector=t.get("vector", 0),
                           call_with=call_with, table=tab)]
    except Exception as e:
        return [{"ev": "d2o", "id": t["id"], "exc": "%s: %s" % (type(e).__name__, str(e)[:100])}]


def _fasta_tables(t):
    from periodictable import fasta
    import random
    rng = random.Random(t["seed"])
    out = []
    tabs = {"aa": fasta.AMINO_ACID_CODES, "na": fasta.NUCLEIC_ACID_COMPONENTS, "ch": fasta.CARBOHYDRATE_RESIDUES,
            "lipid": fasta.LIPIDS, "rnab": fasta.RNA_BASES, "dnab": fasta.DNA_BASES, "rna": fasta.RNA_CODES, "dna": fasta.DNA_CODES}
    # every single-code sequence has been asked for through the prefix route with a private table before
    import periodictable as P
    from .formexec import _tab
    for pre, tab in (("aa", fasta.AMINO_ACID_CODES), ("dna", fasta.DNA_CODES), ("rna", fasta.RNA_CODES)):
        for code in tab:
            try:
                P.formula("%s:%s" % (pre, code), table=_tab("T1"))
            except Exception:
                pass
    for tn, tab in sorted(tabs.items()):
        for code, m in sorted(tab.items(), key=lambda kv: str(kv[0])):
            f = m.labile_formula
            if not f.atoms or not f.density:
                continue
            d, v = rng.choice([0.0, 0.25, 0.5, 1.0, 0.42]), rng.choice([0.0, 0.25, 0.5, 1.0, 0.1])
            idv = "fasta:%s:%s" % (tn, code)
            try:
                out.append(_d2o_event(idv, f, None, d, v, molecule=m))
            except Exception as e:
                out.append({"ev": "d2o", "id": idv, "exc": "%s: %s" % (type(e).__name__, str(e)[:100])})
    return out
