#!/venv/bin/python
"""A repaired defect that comes back must be reported again: revert every `fix:` commit and run the check.

  reverts.py [ids...]     for every `fixed` entry of known_findings.json: the reverse of its commit is applied to a scratch
                          worktree of /repo HEAD (3-way merge when later commits touched the same lines), the 42 tests are
                          run (they passed before the fix, so they pass with it reverted) and the property's quick check
                          must print VIOLATION.  Writes seeded/REVERTS.md.  seeded/reverts/<id>.diff, when present, is the
                          revert re-made by hand on HEAD.

Scratch worktrees only; /repo itself is never touched.
"""
import json
import os
import subprocess
import sys
import tempfile
from concurrent.futures import ThreadPoolExecutor

HERE = os.path.dirname(os.path.abspath(__file__))
VERIF = os.path.dirname(HERE)
sys.path.insert(0, HERE)
import mutant  # noqa


def reverse_patch(commit):
    p = subprocess.run("git -C /repo diff %s %s^ -- periodictable" % (commit, commit), shell=True, stdout=subprocess.PIPE, universal_newlines=True)
    fd, path = tempfile.mkstemp(prefix="ptv-revert-", suffix=".diff")
    with os.fdopen(fd, "w") as f:
        f.write(p.stdout)
    return path


def one(e):
    hand = os.path.join(VERIF, "seeded", "reverts", e["id"] + ".diff")     # the same revert re-made on HEAD where later fixes touched the lines
    path = reverse_patch(e["commit"])
    if os.path.exists(hand):
        os.remove(path)
        fd, path = tempfile.mkstemp(prefix="ptv-revert-", suffix=".diff")
        with os.fdopen(fd, "w") as f:
            f.write(open(hand).read())
    try:
        w = mutant.Worktree(path)
    except RuntimeError as ex:
        os.remove(path)
        return e, {"applies": False, "detail": str(ex)[:200]}
    try:
        rc, out = mutant.sh("%s -m pytest -q -p no:cacheprovider 2>&1 | tail -1" % mutant.PY, cwd=w.dir, env=w.env())
        tests = out.strip().splitlines()[-1] if out.strip() else ""
    finally:
        w.close()
    r = mutant.run(path, [e["property"]])
    os.remove(path)
    v = r.get(e["property"], {})
    clause = v.get("first", "").split('"clause": "', 1)[1].split('"', 1)[0] if '"clause": "' in v.get("first", "") else ""
    res = {"applies": True, "tests": tests, "verdict": v.get("verdict", "").split(" replay=")[0], "clause": clause}
    print(e["id"], e["commit"], res["verdict"][:40], clause, flush=True)
    return e, res


def main(ids):
    ents = [e for e in json.load(open(os.path.join(VERIF, "known_findings.json")))["findings"] if e.get("status") == "fixed"]
    if ids:
        ents = [e for e in ents if e["id"] in ids or e["property"] in ids]
    with ThreadPoolExecutor(max_workers=int(os.environ.get("SEEDED_JOBS", "3"))) as ex:
        results = list(ex.map(one, ents))
    if ids:
        return
    rows = []
    for e, r in results:
        rows.append("| %s | %s | %s | %s | %s | %s |" % (e["id"], e["property"], e["commit"], r.get("tests", "-")[:9] if r["applies"] else "does not apply",
                                                      r.get("clause", ""), "reported again" if r.get("verdict", "").startswith("VIOLATION") else "NOT REPORTED"))
    n = sum(1 for e, r in results if r.get("verdict", "").startswith("VIOLATION"))
    text = """# Repaired defects, reverted

`known_findings.json` lists every genuine defect that was repaired by a `fix:` commit in /repo.  A fixed entry suppresses
nothing; if the defect returns, the check has to report it again.  `harness/reverts.py` reverts each fix commit on a scratch
worktree of /repo HEAD and runs the property's quick check (seed 0) against it.

%d entries, %d reported again.

| finding | property | commit | 42 tests with the fix reverted | first failing clause | quick check |
|---|---|---|---|---|---|
%s
""" % (len(results), n, "\n".join(rows))
    open(os.path.join(VERIF, "seeded", "REVERTS.md"), "w").write(text)


if __name__ == "__main__":
    main(sys.argv[1:])
